/* Harnesses for /repo/src/value.c: buffers and lists. */
#include "value.h"
#include "value.c"

/* ---- cif_buf_write ---------------------------------------------------------------------------------- */
struct in_bw { size_t capacity, position, limit, len; char content[MAXB]; char src[MAXB]; };
DECL_IN(in_bw)
void harness_buf_write(void) {
    struct in_bw in = GET_IN(in_bw);
    PRE(in.capacity >= 1 && in.capacity <= MAXB && in.position <= in.limit && in.limit <= in.capacity && in.len <= MAXB);
    PRE(in.position + in.len <= MAXB);     /* the modelled buffer object is at most MAXB bytes */
    write_buffer_tp b;
    b.start = malloc(in.capacity); PRE(b.start != NULL);
    memcpy(b.start, in.content, in.capacity);
    b.capacity = in.capacity; b.position = in.position; b.limit = in.limit;
    memcpy(g_buf_before, in.content, MAXB); memcpy(g_src, in.src, MAXB);
    char *src = malloc(in.len ? in.len : 1); PRE(src != NULL);
    memcpy(src, in.src, in.len);
    int r = cif_buf_write(&b, src, in.len);
    POST(r == CIF_OK || r == CIF_MEMORY_ERROR || r == CIF_ERROR, "C07/C17 cif_buf_write returns a documented code");
    if (r == CIF_OK) {
        POST(b.position == in.position + in.len && b.capacity >= b.position && b.limit >= b.position, "C07 cif_buf_write advances the position by len");
        POST(FORALL_LT(j, in.len, b.start[in.position + j] == in.src[j]), "C07 written bytes equal the source");
        POST(FORALL_LT(j, in.position, b.start[j] == in.content[j]), "C07 earlier bytes preserved");
        REACH("written");
        if (b.capacity != in.capacity) REACH("grown");
    } else {
        POST(b.position == in.position && b.limit == in.limit && b.capacity == in.capacity, "C17 failed write leaves the buffer unchanged");
        REACH("failed");
    }
    free(src); free(b.start);
}

/* ---- cif_buf_read ------------------------------------------------------------------------------------- */
struct in_br { size_t position, limit, max; char content[MAXB]; };
DECL_IN(in_br)
void harness_buf_read(void) {
    struct in_br in = GET_IN(in_br);
    PRE(in.limit <= MAXB && in.max <= MAXB);
    read_buffer_tp b; char dest[MAXB];
    b.start = in.content; b.capacity = in.limit; b.limit = in.limit; b.position = in.position;
    size_t n = cif_buf_read(&b, dest, in.max);
    size_t avail = in.position >= in.limit ? 0 : in.limit - in.position;
    POST(n == (avail < in.max ? avail : in.max), "C07 cif_buf_read returns min(available, max)");
    POST(b.position == in.position + n, "C07 cif_buf_read advances by what it delivered");
    POST(FORALL_LT(j, n, dest[j] == in.content[in.position + j]), "C07 delivered bytes are the stored bytes");
    if (n) REACH("read"); else REACH("nothing");
}

/* ---- lists -------------------------------------------------------------------------------------------- */
struct in_list { size_t size, capacity, index; int kind; int elsel; };
DECL_IN(in_list)
static cif_value_tp g_slots[MAXL + 2];     /* identity tokens for the elements */
static void build_list(cif_value_tp *v, const struct in_list *in) {
    v->kind = (cif_kind_tp) in->kind;
    if (v->kind == CIF_LIST_KIND) {
        v->as_list.size = in->size; v->as_list.capacity = in->capacity;
        v->as_list.elements = in->capacity ? malloc(in->capacity * sizeof(cif_value_tp *)) : NULL;
        PRE(in->capacity == 0 || v->as_list.elements != NULL);
        for (size_t i = 0; i < MAXL; i++) { if (i < in->capacity) v->as_list.elements[i] = (i < in->size) ? &g_slots[i] : NULL; }
        for (size_t i = 0; i <= MAXL; i++) g_el_before[i] = (i < in->size) ? &g_slots[i] : NULL;
        g_els = v->as_list.elements;
    }
}
#define IN_LIST_OK(in) ((in).size <= (in).capacity && (in).capacity <= MAXL && (in).kind >= CIF_CHAR_KIND && (in).kind <= CIF_UNK_KIND)

void harness_get_element_at(void) {
    struct in_list in = GET_IN(in_list);
    PRE(IN_LIST_OK(in));
    cif_value_tp *vp = malloc(sizeof *vp); PRE(vp != NULL);   /* heap object: cbmc 6.11 mis-tracks pointers in *local* unions */
#define v (*vp)
    cif_value_tp *out = &g_slots[MAXL + 1];
    build_list(&v, &in);
    int r = cif_value_get_element_at(&v, in.index, &out);
    POST(r == (in.kind != CIF_LIST_KIND ? CIF_ARGUMENT_ERROR : (in.index >= in.size ? CIF_INVALID_INDEX : CIF_OK)), "C19 get_element_at result code");
    POST(r != CIF_OK || out == &g_slots[in.index], "C19 get_element_at exposes the member by reference");
    POST(r == CIF_OK || out == &g_slots[MAXL + 1], "C19 failed get_element_at leaves the output untouched");
    if (r == CIF_OK) REACH("got"); if (r == CIF_INVALID_INDEX) REACH("bad-index"); if (r == CIF_ARGUMENT_ERROR) REACH("wrong-kind");
}

void harness_set_element_at(void) {
    struct in_list in = GET_IN(in_list);
    PRE(IN_LIST_OK(in));
    cif_value_tp *vp = malloc(sizeof *vp); PRE(vp != NULL);
    cif_value_tp other;
    build_list(&v, &in);
    for (int i = 0; i < MAXL + 2; i++) g_slots[i].kind = CIF_UNK_KIND;
    /* the new element: NULL, the current occupant itself, or some other value */
    cif_value_tp *el = (in.elsel == 0) ? NULL : ((in.elsel == 1 && in.kind == CIF_LIST_KIND && in.index < in.size) ? &g_slots[in.index] : &other);
    other.kind = CIF_NA_KIND;
    int r = cif_value_set_element_at(&v, in.index, el);
    if (in.kind != CIF_LIST_KIND) POST(r == CIF_ARGUMENT_ERROR, "C19 set_element_at on a non-list is CIF_ARGUMENT_ERROR");
    else if (in.index >= in.size) POST(r == CIF_INVALID_INDEX, "C19 set_element_at out of range is CIF_INVALID_INDEX");
    if (in.kind == CIF_LIST_KIND) {
        POST(v.as_list.size == in.size && v.as_list.capacity == in.capacity, "C19 set_element_at keeps size and capacity");
        #define H_SAME(j) (!((j) < in.size) || v.as_list.elements[j] == &g_slots[j])
        POST(EACH_L(H_SAME), "C19 set_element_at replaces in place: every slot still refers to the same object");
    }
    if (r == CIF_OK) REACH("set"); if (r == CIF_INVALID_INDEX) REACH("bad-index"); if (r == CIF_ARGUMENT_ERROR) REACH("wrong-kind");
}

void harness_insert_element_at(void) {
    struct in_list in = GET_IN(in_list);
    PRE(IN_LIST_OK(in));
    PRE(in.capacity + (in.capacity < 10 ? 4 : in.capacity / 2) <= MAXL);
    cif_value_tp *vp = malloc(sizeof *vp); PRE(vp != NULL);
    cif_value_tp other;
    build_list(&v, &in);
    other.kind = CIF_NA_KIND;
    cif_value_tp **old_elements = (in.kind == CIF_LIST_KIND) ? v.as_list.elements : NULL;
#ifdef VERIF_REALLOC_LIST
    g_realloc_oldslots = in.capacity;
#endif
    int r = cif_value_insert_element_at(&v, in.index, in.elsel ? &other : NULL);
    if (in.kind != CIF_LIST_KIND) POST(r == CIF_ARGUMENT_ERROR, "C19 insert_element_at on a non-list is CIF_ARGUMENT_ERROR");
    else if (in.index > in.size) POST(r == CIF_INVALID_INDEX, "C19 insert_element_at out of range is CIF_INVALID_INDEX");
    if (in.kind == CIF_LIST_KIND && r == CIF_OK) {
        POST(v.as_list.size == in.size + 1 && v.as_list.size <= v.as_list.capacity, "C19 insert grows the list by one within its capacity");
        #define H_BELOW(j) (!((j) < in.index) || v.as_list.elements[j] == &g_slots[j])
        POST(EACH_L(H_BELOW), "C19 insert keeps earlier elements");
        #define H_UP(j) (!((j) > in.index && (j) < in.size + 1) || v.as_list.elements[j] == &g_slots[(j) > 0 ? (j) - 1 : 0])
        POST(EACH_L(H_UP), "C19 insert shifts later elements by one");
        POST(v.as_list.elements[in.index] != NULL && v.as_list.elements[in.index] != &other, "C19 insert stores a copy, not the caller's object");
        REACH("inserted"); if (v.as_list.capacity != in.capacity) REACH("grown");
    }
    if (in.kind == CIF_LIST_KIND && r != CIF_OK) {
        POST(v.as_list.size == in.size && v.as_list.capacity == in.capacity && v.as_list.elements == old_elements, "C17/C19 failed insert leaves the list unchanged");
        POST(EACH_L(H_SAME), "C17/C19 failed insert keeps every element");
        REACH("refused");
    }
}

void harness_remove_element_at(void) {
    struct in_list in = GET_IN(in_list);
    PRE(IN_LIST_OK(in));
    cif_value_tp *vp = malloc(sizeof *vp); PRE(vp != NULL);
    cif_value_tp *out = NULL;
    build_list(&v, &in);
    int r = cif_value_remove_element_at(&v, in.index, in.elsel ? &out : NULL);
    POST(r == (in.kind != CIF_LIST_KIND ? CIF_ARGUMENT_ERROR : (in.index >= in.size ? CIF_INVALID_INDEX : CIF_OK)), "C19 remove_element_at result code");
    if (r == CIF_OK) {
        POST(v.as_list.size == in.size - 1, "C19 remove shrinks the list by one");
        POST(EACH_L(H_BELOW), "C19 remove keeps earlier elements");
        #define H_DOWN(j) (!((j) >= in.index && (j) + 1 < in.size) || v.as_list.elements[j] == &g_slots[(j) + 1])
        POST(EACH_L(H_DOWN), "C19 remove closes the gap");
        POST(!in.elsel || out == &g_slots[in.index], "C19 remove hands the removed member to the caller");
        REACH("removed");
    } else if (in.kind == CIF_LIST_KIND) {
        POST(v.as_list.size == in.size && EACH_L(H_SAME), "C19 refused remove leaves the list unchanged");
        REACH("refused");
    }
}

/* ---- cif_value_parse_numb (C10) ------------------------------------------------------------------------- */
#ifndef MAXT
#define MAXT 8
#endif
struct in_numb { UChar text[MAXT]; size_t len; };
DECL_IN(in_numb)
/* CIF numeric syntax, written from the property statement: [+-]? (D+ | D+ '.' D* | '.' D+) ([eE] [+-]? D+)? ( '(' D+ ')' )?   */
static int spec_is_digit(UChar c) { return c >= '0' && c <= '9'; }
static int spec_is_number(const UChar *t) {
    size_t p = 0; int nd = 0;
    if (t[p] == '+' || t[p] == '-') p++;
    while (spec_is_digit(t[p])) { p++; nd++; }
    if (t[p] == '.') { p++; while (spec_is_digit(t[p])) { p++; nd++; } }
    if (nd == 0) return 0;
    if (t[p] == 'e' || t[p] == 'E') {
        int ne = 0;
        p++;
        if (t[p] == '+' || t[p] == '-') p++;
        while (spec_is_digit(t[p])) { p++; ne++; }
        if (ne == 0) return 0;
    }
    if (t[p] == '(') {
        int ns = 0;
        p++;
        while (spec_is_digit(t[p])) { p++; ns++; }
        if (ns == 0 || t[p] != ')') return 0;
        p++;
    }
    return t[p] == 0;
}
void harness_parse_numb_bounded(void) {
    struct in_numb in = GET_IN(in_numb);
    PRE(in.len < MAXT && in.text[in.len] == 0);
    for (size_t i = 0; i < MAXT; i++) PRE(i >= in.len || in.text[i] != 0);
    UChar *text = malloc((in.len + 1) * sizeof(UChar)); PRE(text != NULL);
    for (size_t i = 0; i < MAXT; i++) if (i <= in.len) text[i] = in.text[i];
    cif_value_tp *n = malloc(sizeof *n); PRE(n != NULL);
    n->kind = CIF_UNK_KIND;
    int r = cif_value_parse_numb(n, text);
    int want = spec_is_number(in.text);
    POST(r == CIF_OK || r == CIF_INVALID_NUMBER || r == CIF_MEMORY_ERROR, "C10 parse_numb returns OK, INVALID_NUMBER or MEMORY_ERROR");
    POST(r == CIF_MEMORY_ERROR || (r == CIF_OK) == (want != 0), "C10 parse_numb accepts exactly the strings of CIF numeric syntax");
    if (r == CIF_OK) {
        POST(n->kind == CIF_NUMB_KIND && n->as_numb.text == text && (n->as_numb.sign == 1 || n->as_numb.sign == -1), "C10 accepted: NUMB value owning the text");
        POST((n->as_numb.sign == -1) == (in.text[0] == '-'), "C10 sign taken from the text");
        POST(n->as_numb.digits != NULL && n->as_numb.digits[0] >= '0' && n->as_numb.digits[0] <= '9', "C10 digit string non-empty and decimal");
        REACH("accepted");
        free(n->as_numb.digits); free(n->as_numb.su_digits); free(text);
    } else {
        POST(n->kind == CIF_UNK_KIND, "C10 refused: the value is not modified");
        REACH("refused");
        free(text);
    }
    free(n);
}

/* ---- is_zero / compare_half: the tie / above / below decision behind every rounding (C10) ---------------------------- */
struct in_half { uint32_t words[MAXW]; size_t wd, lsd; uint32_t cv; };
DECL_IN(in_half)
static int spec_tail_zero(const uint32_t *w, size_t a, size_t b) { for (size_t k = 0; k < MAXW; k++) if (k > a && k <= b && w[k] != 0) return 0; return 1; }
void harness_compare_half(void) {
    struct in_half in = GET_IN(in_half);
    PRE(in.wd <= in.lsd && in.lsd < MAXW);
    uint32_t *w = malloc(MAXW * sizeof(uint32_t)); PRE(w != NULL);
    for (size_t k = 0; k < MAXW; k++) w[k] = in.words[k];
    g_words = w;
    int r = compare_half(in.cv, w + in.wd, w + in.lsd);
    int tz = spec_tail_zero(in.words, in.wd, in.lsd);
    int want = in.cv < 500000000u ? -1 : ((in.cv == 500000000u && tz) ? 0 : 1);
    POST((r < 0) == (want < 0) && (r == 0) == (want == 0), "C10 tail compared correctly with one half (tie / above / below) - the decision behind round-half-even");
    if (want == 0) REACH("tie"); if (want > 0) REACH("above"); if (want < 0) REACH("below");
    free(w);
}
void harness_is_zero(void) {
    struct in_half in = GET_IN(in_half);
    PRE(in.wd <= in.lsd && in.lsd < MAXW);
    uint32_t *w = malloc(MAXW * sizeof(uint32_t)); PRE(w != NULL);
    for (size_t k = 0; k < MAXW; k++) w[k] = in.words[k];
    g_words = w;
    int r = is_zero(in.cv, w + in.wd, w + in.lsd);
    POST((r != 0) == (in.cv == 0 && spec_tail_zero(in.words, in.wd, in.lsd)), "C10 is_zero = the whole tail is zero");
    if (r) REACH("zero"); else REACH("nonzero");
    free(w);
}

/* ---- serialise / deserialise of scalar values against the wire layout (C07) ----------------------------------------------------
 * Specification function shared by the two jobs: LAYOUT(v) = [kind : sizeof(cif_kind_tp)] [n : sizeof(ssize_t)] [n code units] [quoted : sizeof(cif_quoted_tp)]
 * for CHAR and NUMB values, [kind] alone for UNK and NA. serialize_layout proves cif_value_serialize(sv) == LAYOUT(v); deserialize_layout
 * proves cif_value_deserialize(LAYOUT(v)) == v. Their composition is the round trip. The text length is a constant of the job (RTN):
 * a symbolic length makes the allocation size in DESERIALIZE_USTRING symbolic, which CBMC cannot flatten. */
#ifdef VERIF_SCALAR_ONLY
#ifndef RTN
#define RTN 3
#endif
#define L_KIND 0
#define L_SIZE (sizeof(cif_kind_tp))
#define L_TEXT (L_SIZE + sizeof(ssize_t))
#define L_QUOT (L_TEXT + RTN * sizeof(UChar))
#define L_END  (L_QUOT + sizeof(cif_quoted_tp))
/* model of ICU u_strlen for these two jobs: answers the constant RTN and asserts that this is the right answer for the argument */
int32_t u_strlen(const UChar *s) {
    for (int i = 0; i < RTN; i++) POST(s[i] != 0, "u_strlen model: a string of exactly RTN units");
    POST(s[RTN] == 0, "u_strlen model: a string of exactly RTN units");
    return RTN;
}
static ssize_t rd_ssize(const char *p) { ssize_t x; memcpy(&x, p, sizeof x); return x; }
static int rd_int(const char *p) { int x; memcpy(&x, p, sizeof x); return x; }
static UChar rd_uchar(const char *p) { UChar x; memcpy(&x, p, sizeof x); return x; }
struct in_rt { UChar text[RTN]; int quoted; int kind; };
DECL_IN(in_rt)
static UChar rt_text[RTN + 1];
static const UChar rt_num[] = { '-', '1', '.', '5', '0', 'e', '2', '(', '3', ')', 0 };   /* used when RTN == 10 and the kind is NUMB */
static void rt_fill_text(const struct in_rt *in, int numb) {
    for (int i = 0; i < RTN; i++) rt_text[i] = numb ? rt_num[i] : in->text[i];
    rt_text[RTN] = 0;
}
void harness_serialize_layout(void) {
    struct in_rt in = GET_IN(in_rt);
    for (int i = 0; i < RTN; i++) PRE(in.text[i] != 0);
    PRE(in.kind == CIF_CHAR_KIND || in.kind == CIF_NUMB_KIND || in.kind == CIF_UNK_KIND || in.kind == CIF_NA_KIND);
    rt_fill_text(&in, 0);
    cif_value_tp *sv = malloc(sizeof *sv); PRE(sv != NULL);
    sv->kind = (cif_kind_tp)in.kind;
    if (in.kind == CIF_CHAR_KIND || in.kind == CIF_NUMB_KIND) { sv->as_char.text = rt_text; sv->as_char.quoted = (cif_quoted_tp)in.quoted; }
    buffer_tp *buf = NULL;
    int r = cif_value_serialize(sv, &buf);
    PRE(r != CIF_MEMORY_ERROR);
    POST(r == CIF_OK && buf != NULL, "C07 serialising a scalar value succeeds (allocation failure aside)");
    if (r == CIF_OK) {
        const char *b = buf->for_writing.start;
        POST(rd_int(b + L_KIND) == (int)sv->kind, "C07 layout: the kind comes first");
        if (in.kind == CIF_CHAR_KIND || in.kind == CIF_NUMB_KIND) {
            POST(buf->for_writing.limit == L_END && buf->for_writing.position == L_END, "C07 layout: total length");
            POST(rd_ssize(b + L_SIZE) == RTN, "C07 layout: the text length follows the kind");
            for (int i = 0; i < RTN; i++) POST(rd_uchar(b + L_TEXT + i * sizeof(UChar)) == in.text[i], "C07 layout: the code units of the text, in order");
            POST(rd_int(b + L_QUOT) == (int)sv->as_char.quoted, "C07 layout: the quoted flag comes last");
            REACH("text-layout");
        } else {
            POST(buf->for_writing.limit == L_SIZE, "C07 layout: UNK and NA values are their kind alone");
            REACH("kind-only-layout");
        }
    }
}
static char rt_raw[L_END];
void harness_deserialize_layout(void) {
    struct in_rt in = GET_IN(in_rt);
    for (int i = 0; i < RTN; i++) PRE(in.text[i] != 0);
#ifdef RT_NUMB
    const cif_kind_tp kind = CIF_NUMB_KIND;
#else
    const cif_kind_tp kind = CIF_CHAR_KIND;
#endif
    rt_fill_text(&in, kind == CIF_NUMB_KIND);
    { const ssize_t n = RTN; memcpy(rt_raw + L_KIND, &kind, sizeof kind); memcpy(rt_raw + L_SIZE, &n, sizeof n); }
    for (int i = 0; i < RTN; i++) memcpy(rt_raw + L_TEXT + i * sizeof(UChar), &rt_text[i], sizeof(UChar));
    memcpy(rt_raw + L_QUOT, &in.quoted, sizeof in.quoted);
    cif_value_tp *dw = malloc(sizeof *dw); PRE(dw != NULL); dw->kind = CIF_UNK_KIND;
    int r = cif_value_deserialize(rt_raw, L_END, dw);
    PRE(r != CIF_MEMORY_ERROR);
    if (in.quoted == CIF_QUOTED || in.quoted == CIF_NOT_QUOTED) {
        POST(r == CIF_OK && dw->kind == kind, "C07 a stored value is read back with its kind");
        if (r == CIF_OK) {
            POST(dw->as_char.quoted == (cif_quoted_tp)in.quoted, "C07 the quoted status is read back unchanged");
            POST(dw->as_char.text != NULL && dw->as_char.text != rt_text, "C07 the text read back lives in storage of its own");
            for (int i = 0; i <= RTN; i++) POST(dw->as_char.text[i] == rt_text[i], "C07 the text is read back unit for unit, NUL-terminated");
#ifdef RT_NUMB
            POST(dw->as_numb.sign == -1 && dw->as_numb.scale == 0 && dw->as_numb.digits != NULL && dw->as_numb.su_digits != NULL, "C07 a number read back carries its parsed form");
            POST(dw->as_numb.digits[0] == '1' && dw->as_numb.digits[1] == '5' && dw->as_numb.digits[2] == '0' && dw->as_numb.digits[3] == 0, "C07 digits of -1.50e2(3)");
            POST(dw->as_numb.su_digits[0] == '3' && dw->as_numb.su_digits[1] == 0, "C07 su digits of -1.50e2(3)");
#endif
            REACH("read-back");
        }
    } else {
        POST(r != CIF_OK, "C07 a stream with an invalid quoted flag is refused");
        REACH("bad-flag");
    }
}
#endif
