/* Harnesses for /repo/src/value.c: buffers and lists. */
#include "value.h"
#include "value.c"

/* ---- cif_buf_write ---------------------------------------------------------------------------------- */
struct in_bw { size_t capacity, position, limit, len; char content[MAXB]; char src[MAXB]; };
DECL_IN(in_bw)
void harness_buf_write(void) {
    struct in_bw in = GET_IN(in_bw);
    PRE(in.capacity >= 1 && in.capacity <= MAXB && in.position <= in.limit && in.limit <= in.capacity && in.len <= MAXB);
    PRE(in.position + in.len <= MAXB);     /* the modelled buffer object is at most MAXB bytes */
    write_buffer_tp b;
    b.start = malloc(in.capacity); PRE(b.start != NULL);
    memcpy(b.start, in.content, in.capacity);
    b.capacity = in.capacity; b.position = in.position; b.limit = in.limit;
    memcpy(g_buf_before, in.content, MAXB); memcpy(g_src, in.src, MAXB);
    char *src = malloc(in.len ? in.len : 1); PRE(src != NULL);
    memcpy(src, in.src, in.len);
    int r = cif_buf_write(&b, src, in.len);
    POST(r == CIF_OK || r == CIF_MEMORY_ERROR || r == CIF_ERROR, "C07/C17 cif_buf_write returns a documented code");
    if (r == CIF_OK) {
        POST(b.position == in.position + in.len && b.capacity >= b.position && b.limit >= b.position, "C07 cif_buf_write advances the position by len");
        POST(FORALL_LT(j, in.len, b.start[in.position + j] == in.src[j]), "C07 written bytes equal the source");
        POST(FORALL_LT(j, in.position, b.start[j] == in.content[j]), "C07 earlier bytes preserved");
        REACH("written");
        if (b.capacity != in.capacity) REACH("grown");
    } else {
        POST(b.position == in.position && b.limit == in.limit && b.capacity == in.capacity, "C17 failed write leaves the buffer unchanged");
        REACH("failed");
    }
    free(src); free(b.start);
}

/* ---- cif_buf_read ------------------------------------------------------------------------------------- */
struct in_br { size_t position, limit, max; char content[MAXB]; };
DECL_IN(in_br)
void harness_buf_read(void) {
    struct in_br in = GET_IN(in_br);
    PRE(in.limit <= MAXB && in.max <= MAXB);
    read_buffer_tp b; char dest[MAXB];
    b.start = in.content; b.capacity = in.limit; b.limit = in.limit; b.position = in.position;
    size_t n = cif_buf_read(&b, dest, in.max);
    size_t avail = in.position >= in.limit ? 0 : in.limit - in.position;
    POST(n == (avail < in.max ? avail : in.max), "C07 cif_buf_read returns min(available, max)");
    POST(b.position == in.position + n, "C07 cif_buf_read advances by what it delivered");
    POST(FORALL_LT(j, n, dest[j] == in.content[in.position + j]), "C07 delivered bytes are the stored bytes");
    if (n) REACH("read"); else REACH("nothing");
}

/* ---- lists -------------------------------------------------------------------------------------------- */
struct in_list { size_t size, capacity, index; int kind; int elsel; };
DECL_IN(in_list)
static cif_value_tp g_slots[MAXL + 2];     /* identity tokens for the elements */
static void build_list(cif_value_tp *v, const struct in_list *in) {
    v->kind = (cif_kind_tp) in->kind;
    if (v->kind == CIF_LIST_KIND) {
        v->as_list.size = in->size; v->as_list.capacity = in->capacity;
        v->as_list.elements = in->capacity ? malloc(in->capacity * sizeof(cif_value_tp *)) : NULL;
        PRE(in->capacity == 0 || v->as_list.elements != NULL);
        for (size_t i = 0; i < MAXL; i++) { if (i < in->capacity) v->as_list.elements[i] = (i < in->size) ? &g_slots[i] : NULL; }
        for (size_t i = 0; i <= MAXL; i++) g_el_before[i] = (i < in->size) ? &g_slots[i] : NULL;
        g_els = v->as_list.elements;
    }
}
#define IN_LIST_OK(in) ((in).size <= (in).capacity && (in).capacity <= MAXL && (in).kind >= CIF_CHAR_KIND && (in).kind <= CIF_UNK_KIND)

void harness_get_element_at(void) {
    struct in_list in = GET_IN(in_list);
    PRE(IN_LIST_OK(in));
    cif_value_tp *vp = malloc(sizeof *vp); PRE(vp != NULL);   /* heap object: cbmc 6.11 mis-tracks pointers in *local* unions */
#define v (*vp)
    cif_value_tp *out = &g_slots[MAXL + 1];
    build_list(&v, &in);
    int r = cif_value_get_element_at(&v, in.index, &out);
    POST(r == (in.kind != CIF_LIST_KIND ? CIF_ARGUMENT_ERROR : (in.index >= in.size ? CIF_INVALID_INDEX : CIF_OK)), "C19 get_element_at result code");
    POST(r != CIF_OK || out == &g_slots[in.index], "C19 get_element_at exposes the member by reference");
    POST(r == CIF_OK || out == &g_slots[MAXL + 1], "C19 failed get_element_at leaves the output untouched");
    if (r == CIF_OK) REACH("got"); if (r == CIF_INVALID_INDEX) REACH("bad-index"); if (r == CIF_ARGUMENT_ERROR) REACH("wrong-kind");
}

void harness_set_element_at(void) {
    struct in_list in = GET_IN(in_list);
    PRE(IN_LIST_OK(in));
    cif_value_tp *vp = malloc(sizeof *vp); PRE(vp != NULL);
    cif_value_tp other;
    build_list(&v, &in);
    for (int i = 0; i < MAXL + 2; i++) g_slots[i].kind = CIF_UNK_KIND;
    /* the new element: NULL, the current occupant itself, or some other value */
    cif_value_tp *el = (in.elsel == 0) ? NULL : ((in.elsel == 1 && in.kind == CIF_LIST_KIND && in.index < in.size) ? &g_slots[in.index] : &other);
    other.kind = CIF_NA_KIND;
    int r = cif_value_set_element_at(&v, in.index, el);
    if (in.kind != CIF_LIST_KIND) POST(r == CIF_ARGUMENT_ERROR, "C19 set_element_at on a non-list is CIF_ARGUMENT_ERROR");
    else if (in.index >= in.size) POST(r == CIF_INVALID_INDEX, "C19 set_element_at out of range is CIF_INVALID_INDEX");
    if (in.kind == CIF_LIST_KIND) {
        POST(v.as_list.size == in.size && v.as_list.capacity == in.capacity, "C19 set_element_at keeps size and capacity");
        #define H_SAME(j) (!((j) < in.size) || v.as_list.elements[j] == &g_slots[j])
        POST(EACH_L(H_SAME), "C19 set_element_at replaces in place: every slot still refers to the same object");
    }
    if (r == CIF_OK) REACH("set"); if (r == CIF_INVALID_INDEX) REACH("bad-index"); if (r == CIF_ARGUMENT_ERROR) REACH("wrong-kind");
}

void harness_insert_element_at(void) {
    struct in_list in = GET_IN(in_list);
    PRE(IN_LIST_OK(in));
    PRE(in.capacity + (in.capacity < 10 ? 4 : in.capacity / 2) <= MAXL);
    cif_value_tp *vp = malloc(sizeof *vp); PRE(vp != NULL);
    cif_value_tp other;
    build_list(&v, &in);
    other.kind = CIF_NA_KIND;
    cif_value_tp **old_elements = (in.kind == CIF_LIST_KIND) ? v.as_list.elements : NULL;
#ifdef VERIF_REALLOC_LIST
    g_realloc_oldslots = in.capacity;
#endif
    int r = cif_value_insert_element_at(&v, in.index, in.elsel ? &other : NULL);
    if (in.kind != CIF_LIST_KIND) POST(r == CIF_ARGUMENT_ERROR, "C19 insert_element_at on a non-list is CIF_ARGUMENT_ERROR");
    else if (in.index > in.size) POST(r == CIF_INVALID_INDEX, "C19 insert_element_at out of range is CIF_INVALID_INDEX");
    if (in.kind == CIF_LIST_KIND && r == CIF_OK) {
        POST(v.as_list.size == in.size + 1 && v.as_list.size <= v.as_list.capacity, "C19 insert grows the list by one within its capacity");
        #define H_BELOW(j) (!((j) < in.index) || v.as_list.elements[j] == &g_slots[j])
        POST(EACH_L(H_BELOW), "C19 insert keeps earlier elements");
        #define H_UP(j) (!((j) > in.index && (j) < in.size + 1) || v.as_list.elements[j] == &g_slots[(j) > 0 ? (j) - 1 : 0])
        POST(EACH_L(H_UP), "C19 insert shifts later elements by one");
        POST(v.as_list.elements[in.index] != NULL && v.as_list.elements[in.index] != &other, "C19 insert stores a copy, not the caller's object");
        REACH("inserted"); if (v.as_list.capacity != in.capacity) REACH("grown");
    }
    if (in.kind == CIF_LIST_KIND && r != CIF_OK) {
        POST(v.as_list.size == in.size && v.as_list.capacity == in.capacity && v.as_list.elements == old_elements, "C17/C19 failed insert leaves the list unchanged");
        POST(EACH_L(H_SAME), "C17/C19 failed insert keeps every element");
        REACH("refused");
    }
}

void harness_remove_element_at(void) {
    struct in_list in = GET_IN(in_list);
    PRE(IN_LIST_OK(in));
    cif_value_tp *vp = malloc(sizeof *vp); PRE(vp != NULL);
    cif_value_tp *out = NULL;
    build_list(&v, &in);
    int r = cif_value_remove_element_at(&v, in.index, in.elsel ? &out : NULL);
    POST(r == (in.kind != CIF_LIST_KIND ? CIF_ARGUMENT_ERROR : (in.index >= in.size ? CIF_INVALID_INDEX : CIF_OK)), "C19 remove_element_at result code");
    if (r == CIF_OK) {
        POST(v.as_list.size == in.size - 1, "C19 remove shrinks the list by one");
        POST(EACH_L(H_BELOW), "C19 remove keeps earlier elements");
        #define H_DOWN(j) (!((j) >= in.index && (j) + 1 < in.size) || v.as_list.elements[j] == &g_slots[(j) + 1])
        POST(EACH_L(H_DOWN), "C19 remove closes the gap");
        POST(!in.elsel || out == &g_slots[in.index], "C19 remove hands the removed member to the caller");
        REACH("removed");
    } else if (in.kind == CIF_LIST_KIND) {
        POST(v.as_list.size == in.size && EACH_L(H_SAME), "C19 refused remove leaves the list unchanged");
        REACH("refused");
    }
}

/* ---- cif_value_parse_numb (C10) ------------------------------------------------------------------------- */
#ifndef MAXT
#define MAXT 8
#endif
struct in_numb { UChar text[MAXT]; size_t len; };
DECL_IN(in_numb)
/* CIF numeric syntax, written from the property statement: [+-]? (D+ | D+ '.' D* | '.' D+) ([eE] [+-]? D+)? ( '(' D+ ')' )?   */
static int spec_is_digit(UChar c) { return c >= '0' && c <= '9'; }
static int spec_is_number(const UChar *t) {
    size_t p = 0; int nd = 0;
    if (t[p] == '+' || t[p] == '-') p++;
    while (spec_is_digit(t[p])) { p++; nd++; }
    if (t[p] == '.') { p++; while (spec_is_digit(t[p])) { p++; nd++; } }
    if (nd == 0) return 0;
    if (t[p] == 'e' || t[p] == 'E') {
        int ne = 0;
        p++;
        if (t[p] == '+' || t[p] == '-') p++;
        while (spec_is_digit(t[p])) { p++; ne++; }
        if (ne == 0) return 0;
    }
    if (t[p] == '(') {
        int ns = 0;
        p++;
        while (spec_is_digit(t[p])) { p++; ns++; }
        if (ns == 0 || t[p] != ')') return 0;
        p++;
    }
    return t[p] == 0;
}
void harness_parse_numb_bounded(void) {
    struct in_numb in = GET_IN(in_numb);
    PRE(in.len < MAXT && in.text[in.len] == 0);
    for (size_t i = 0; i < MAXT; i++) PRE(i >= in.len || in.text[i] != 0);
    UChar *text = malloc((in.len + 1) * sizeof(UChar)); PRE(text != NULL);
    for (size_t i = 0; i < MAXT; i++) if (i <= in.len) text[i] = in.text[i];
    cif_value_tp *n = malloc(sizeof *n); PRE(n != NULL);
    n->kind = CIF_UNK_KIND;
    int r = cif_value_parse_numb(n, text);
    int want = spec_is_number(in.text);
    POST(r == CIF_OK || r == CIF_INVALID_NUMBER || r == CIF_MEMORY_ERROR, "C10 parse_numb returns OK, INVALID_NUMBER or MEMORY_ERROR");
    POST(r == CIF_MEMORY_ERROR || (r == CIF_OK) == (want != 0), "C10 parse_numb accepts exactly the strings of CIF numeric syntax");
    if (r == CIF_OK) {
        POST(n->kind == CIF_NUMB_KIND && n->as_numb.text == text && (n->as_numb.sign == 1 || n->as_numb.sign == -1), "C10 accepted: NUMB value owning the text");
        POST((n->as_numb.sign == -1) == (in.text[0] == '-'), "C10 sign taken from the text");
        POST(n->as_numb.digits != NULL && n->as_numb.digits[0] >= '0' && n->as_numb.digits[0] <= '9', "C10 digit string non-empty and decimal");
        REACH("accepted");
        free(n->as_numb.digits); free(n->as_numb.su_digits); free(text);
    } else {
        POST(n->kind == CIF_UNK_KIND, "C10 refused: the value is not modified");
        REACH("refused");
        free(text);
    }
    free(n);
}

/* ---- is_zero / compare_half: the tie / above / below decision behind every rounding (C10) ---------------------------- */
struct in_half { uint32_t words[MAXW]; size_t wd, lsd; uint32_t cv; };
DECL_IN(in_half)
static int spec_tail_zero(const uint32_t *w, size_t a, size_t b) { for (size_t k = 0; k < MAXW; k++) if (k > a && k <= b && w[k] != 0) return 0; return 1; }
void harness_compare_half(void) {
    struct in_half in = GET_IN(in_half);
    PRE(in.wd <= in.lsd && in.lsd < MAXW);
    uint32_t *w = malloc(MAXW * sizeof(uint32_t)); PRE(w != NULL);
    for (size_t k = 0; k < MAXW; k++) w[k] = in.words[k];
    g_words = w;
    int r = compare_half(in.cv, w + in.wd, w + in.lsd);
    int tz = spec_tail_zero(in.words, in.wd, in.lsd);
    int want = in.cv < 500000000u ? -1 : ((in.cv == 500000000u && tz) ? 0 : 1);
    POST((r < 0) == (want < 0) && (r == 0) == (want == 0), "C10 tail compared correctly with one half (tie / above / below) - the decision behind round-half-even");
    if (want == 0) REACH("tie"); if (want > 0) REACH("above"); if (want < 0) REACH("below");
    free(w);
}
void harness_is_zero(void) {
    struct in_half in = GET_IN(in_half);
    PRE(in.wd <= in.lsd && in.lsd < MAXW);
    uint32_t *w = malloc(MAXW * sizeof(uint32_t)); PRE(w != NULL);
    for (size_t k = 0; k < MAXW; k++) w[k] = in.words[k];
    g_words = w;
    int r = is_zero(in.cv, w + in.wd, w + in.lsd);
    POST((r != 0) == (in.cv == 0 && spec_tail_zero(in.words, in.wd, in.lsd)), "C10 is_zero = the whole tail is zero");
    if (r) REACH("zero"); else REACH("nonzero");
    free(w);
}

/* ---- serialise / deserialise round trip of scalar values (C07) --------------------------------------------------------------- */
#ifndef RTN
#define RTN 3
#endif
struct in_rt { UChar text[RTN]; int quoted; int kind; };
DECL_IN(in_rt)
static int rt_same_ustr(const UChar *a, const UChar *b) { for (int i = 0; i <= RTN + 8; i++) { if (a[i] != b[i]) return 0; if (!a[i]) return 1; } return 1; }
static int rt_same_str(const char *a, const char *b) { if (a == NULL || b == NULL) return a == b; for (int i = 0; i <= 16; i++) { if (a[i] != b[i]) return 0; if (!a[i]) return 1; } return 1; }
void harness_roundtrip_char(void) {
    struct in_rt in = GET_IN(in_rt);
    for (int i = 0; i < RTN; i++) PRE(in.text[i] != 0);
    PRE(in.quoted == CIF_QUOTED || in.quoted == CIF_NOT_QUOTED);
    PRE(in.kind == CIF_CHAR_KIND || in.kind == CIF_UNK_KIND || in.kind == CIF_NA_KIND);
    cif_value_tp *v = malloc(sizeof *v); PRE(v != NULL);
    v->kind = (cif_kind_tp)in.kind;
    if (in.kind == CIF_CHAR_KIND) {
        UChar *t = malloc((RTN + 1) * sizeof(UChar)); PRE(t != NULL);
        for (int i = 0; i < RTN; i++) t[i] = in.text[i];
        t[RTN] = 0; v->as_char.text = t; v->as_char.quoted = (cif_quoted_tp)in.quoted;
    }
    buffer_tp *buf = NULL;
    int r = cif_value_serialize(v, &buf);
    PRE(r == CIF_OK);   /* allocation failure aside */
    cif_value_tp *w = malloc(sizeof *w); PRE(w != NULL); w->kind = CIF_UNK_KIND;
    int r2 = cif_value_deserialize(buf->for_writing.start, buf->for_writing.limit, w);
    PRE(r2 != CIF_MEMORY_ERROR);
    POST(r2 == CIF_OK && w->kind == v->kind, "C07 a stored value is read back with the same kind");
    if (r2 == CIF_OK && in.kind == CIF_CHAR_KIND) {
        POST(w->as_char.quoted == v->as_char.quoted, "C07 quoted status read back unchanged");
        POST(w->as_char.text != v->as_char.text && rt_same_ustr(w->as_char.text, v->as_char.text), "C07 text read back identical, in storage of its own");
        REACH("char-roundtrip");
    }
    if (in.kind != CIF_CHAR_KIND) REACH("unk-na-roundtrip");
}
void harness_roundtrip_numb(void) {
    struct in_rt in = GET_IN(in_rt);
    PRE(in.quoted == CIF_QUOTED || in.quoted == CIF_NOT_QUOTED);
    /* a concrete number text: the point of this lemma is the wire format and the order of the deserialisation steps, not the number grammar (C10) */
    static const UChar num[] = { '-', '1', '.', '5', '0', 'e', '2', '(', '3', ')', 0 };
    UChar *t = malloc(sizeof num); PRE(t != NULL);
    for (unsigned i = 0; i < sizeof num / sizeof num[0]; i++) t[i] = num[i];
    cif_value_tp *v = malloc(sizeof *v); PRE(v != NULL); v->kind = CIF_UNK_KIND;
    PRE(cif_value_parse_numb(v, t) == CIF_OK);
    POST(v->kind == CIF_NUMB_KIND && v->as_numb.quoted == CIF_NOT_QUOTED, "C07/C10 a freshly parsed number is unquoted");
    v->as_numb.quoted = (cif_quoted_tp)in.quoted;
    buffer_tp *buf = NULL;
    PRE(cif_value_serialize(v, &buf) == CIF_OK);
    cif_value_tp *w = malloc(sizeof *w); PRE(w != NULL); w->kind = CIF_UNK_KIND;
    int r2 = cif_value_deserialize(buf->for_writing.start, buf->for_writing.limit, w);
    PRE(r2 != CIF_MEMORY_ERROR);
    POST(r2 == CIF_OK && w->kind == CIF_NUMB_KIND, "C07 a stored number is read back as a number");
    if (r2 == CIF_OK) {
        POST(w->as_numb.quoted == v->as_numb.quoted, "C07 quoted status of a number read back unchanged");
        POST(rt_same_ustr(w->as_numb.text, v->as_numb.text) && w->as_numb.sign == v->as_numb.sign && w->as_numb.scale == v->as_numb.scale
             && rt_same_str(w->as_numb.digits, v->as_numb.digits) && rt_same_str(w->as_numb.su_digits, v->as_numb.su_digits), "C07 text, sign, digits, uncertainty and scale read back identical");
        REACH("numb-roundtrip");
    }
}
