/* C08 harness: get_more_chars() buffer bookkeeping for all buffer states (no CR in the delivered data: the folding loops exit at once). */
#include "parser_buf.h"
#include "parser.c"
#ifdef VERIF_REPLAY
/* native stand-in for the character source: delivers g_read_n CR-free units (or the error) */
ssize_t stub_read_func(void *char_source, UChar *dest, ssize_t count, int *error_code) {
    ssize_t n = g_read_n < count ? g_read_n : count;
    g_read_calls++; g_read_dest = dest; g_read_count = count;
    if (n < 0) { *error_code = g_read_error; return n; }
    for (ssize_t i = 0; i < n; i++) dest[i] = (UChar)('a' + i % 26);
    return n;
}
#endif
_Static_assert(CIF_EOF == SPEC_CIF_EOF, "parser.c changed its private end-of-input code");

struct in_gmc { size_t size, limit, ts, tv, nc; int at_eof; long read_n; int read_error; UChar content[MAXBUF]; };
DECL_IN(in_gmc)
void harness_get_more_chars(void) {
    struct in_gmc in = GET_IN(in_gmc);
    PRE(in.size >= 1 && in.size * 2 <= MAXBUF && in.limit <= in.size && in.ts <= in.tv && in.tv <= in.nc && in.nc <= in.limit && in.read_n <= MAXBUF && in.read_error > 0);
    struct scanner_s *s = malloc(sizeof *s); PRE(s != NULL);
    s->buffer = malloc(in.size * sizeof(UChar)); PRE(s->buffer != NULL);
    s->buffer_size = in.size; s->buffer_limit = in.limit;
    s->text_start = s->buffer + in.ts; s->tvalue_start = s->buffer + in.tv; s->next_char = s->buffer + in.nc;
    s->at_eof = in.at_eof; s->read_func = stub_read_func; s->char_source = NULL;
    g_read_n = in.read_n; g_read_error = in.read_error; g_no_cr = 1; g_read_calls = 0;
    int r = get_more_chars(s);
    if (r != CIF_MEMORY_ERROR || g_read_calls) {
        POST((size_t)(s->next_char - s->text_start) == in.nc - in.ts, "C08 scanned length of the current token preserved across buffer reset / compaction / growth");
        POST((size_t)(s->tvalue_start - s->text_start) == in.tv - in.ts, "C08 offset of the token value inside the token text preserved");
        POST(s->text_start >= s->buffer && s->next_char <= s->buffer + s->buffer_limit && s->buffer_limit <= s->buffer_size, "C03/C16 scanner pointers stay inside the buffer");
    }
    if (r == CIF_OK) REACH("more"); if (r == CIF_EOF) REACH("eof"); if (r == CIF_MEMORY_ERROR) REACH("oom");
    if (r == CIF_OK && s->buffer_size != in.size) REACH("grown"); if (r == CIF_OK && s->buffer_size == in.size && in.ts > 0 && s->text_start == s->buffer) REACH("compacted");
}
