/* C08 harness: get_more_chars() buffer bookkeeping for all buffer states (no CR in the delivered data: the folding loops exit at once). */
#include "parser_buf.h"
#include "parser.c"
#ifdef VERIF_REPLAY
/* native stand-in for the character source: delivers g_read_n CR-free units (or the error) */
ssize_t stub_read_func(void *char_source, UChar *dest, ssize_t count, int *error_code) {
    ssize_t n = g_read_n < count ? g_read_n : count;
    g_read_calls++; g_read_dest = dest; g_read_count = count;
    if (n < 0) { *error_code = g_read_error; return n; }
    for (ssize_t i = 0; i < n; i++) dest[i] = (UChar)('a' + i % 26);
    return n;
}
#endif
_Static_assert(CIF_EOF == SPEC_CIF_EOF, "parser.c changed its private end-of-input code");

struct in_gmc { size_t size, limit, ts, tv, nc; int at_eof; long read_n; int read_error; UChar content[MAXBUF]; };
DECL_IN(in_gmc)
void harness_get_more_chars(void) {
    struct in_gmc in = GET_IN(in_gmc);
    PRE(in.size >= 1 && in.size * 2 <= MAXBUF && in.limit <= in.size && in.ts <= in.tv && in.tv <= in.nc && in.nc <= in.limit && in.read_n <= MAXBUF && in.read_error > 0);
    struct scanner_s *s = malloc(sizeof *s); PRE(s != NULL);
    s->buffer = malloc(in.size * sizeof(UChar)); PRE(s->buffer != NULL);
    s->buffer_size = in.size; s->buffer_limit = in.limit;
    s->text_start = s->buffer + in.ts; s->tvalue_start = s->buffer + in.tv; s->next_char = s->buffer + in.nc;
    s->at_eof = in.at_eof; s->read_func = stub_read_func; s->char_source = NULL;
    g_read_n = in.read_n; g_read_error = in.read_error; g_no_cr = 1; g_read_calls = 0;
    int r = get_more_chars(s);
    if (r != CIF_MEMORY_ERROR || g_read_calls) {
        POST((size_t)(s->next_char - s->text_start) == in.nc - in.ts, "C08 scanned length of the current token preserved across buffer reset / compaction / growth");
        POST((size_t)(s->tvalue_start - s->text_start) == in.tv - in.ts, "C08 offset of the token value inside the token text preserved");
        POST(s->text_start >= s->buffer && s->next_char <= s->buffer + s->buffer_limit && s->buffer_limit <= s->buffer_size, "C03/C16 scanner pointers stay inside the buffer");
    }
    if (r == CIF_OK) REACH("more"); if (r == CIF_EOF) REACH("eof"); if (r == CIF_MEMORY_ERROR) REACH("oom");
    if (r == CIF_OK && s->buffer_size != in.size) REACH("grown"); if (r == CIF_OK && s->buffer_size == in.size && in.ts > 0 && s->text_start == s->buffer) REACH("compacted");
}

/* ---- get_first_char ------------------------------------------------------------------------------------------------------------ */
#ifndef VERIF_REPLAY
int nondet_int(void);
static ssize_t fc_read_func(void *src, UChar *dest, ssize_t count, int *err) {
    unsigned k = g_fc_calls < 2 ? g_fc_calls : 1;
    ssize_t n = g_fc_n[k] < count ? g_fc_n[k] : count;
    g_fc_count[k] = count; g_fc_calls++;
    if (n < 0) { *err = CIF_ERROR; return n; }
    if (n > 0) dest[0] = g_fc_ch[k];
    return n;
}
static int fc_err(int code, size_t line, size_t column, const UChar *text, size_t length, void *data) {
    __CPROVER_assert(line >= 1 && (text == NULL || __CPROVER_r_ok(text, length * sizeof(UChar))), "C03 error callback: line >= 1 and text readable for the stated length");
    return nondet_int();
}
void harness_get_first_char(void) {
    struct scanner_s *s = malloc(sizeof *s); __CPROVER_assume(s != NULL);
    size_t size = (size_t)nondet_int(); __CPROVER_assume(size >= 2 && size <= MAXBUF);
    s->buffer = malloc(size * sizeof(UChar)); __CPROVER_assume(s->buffer != NULL);
    s->buffer_size = size; s->buffer_limit = 0; s->next_char = s->buffer; s->text_start = s->buffer; s->tvalue_start = s->buffer;
    s->at_eof = 0; s->read_func = fc_read_func; s->char_source = NULL; s->error_callback = fc_err; s->user_data = NULL;
    __CPROVER_assume(s->char_class[0x0D] != NO_CLASS);   /* CR is an end-of-line character in every scanner table */
    g_fc_calls = 0; g_fc_n[0] = nondet_int(); g_fc_n[1] = nondet_int(); g_fc_ch[0] = (UChar)nondet_int(); g_fc_ch[1] = (UChar)nondet_int();
    __CPROVER_assume(g_fc_n[0] >= -1 && g_fc_n[0] <= 1 && g_fc_n[1] >= -1 && g_fc_n[1] <= MAXBUF);
    int r = get_first_char(s);
    if (r == CIF_OK && g_fc_calls == 2 && g_fc_n[1] > 0) {
        size_t delivered = (size_t)(g_fc_n[1] < g_fc_count[1] ? g_fc_n[1] : g_fc_count[1]);
        POST(s->buffer_limit == 1 + delivered - (g_fc_ch[1] == 0x0A ? 1 : 0), "C08 an input starting with CR keeps every unit the source delivered (CR LF counted once)");
        REACH("cr-first");
    }
    if (r == CIF_OK && g_fc_calls == 1) { POST(s->buffer_limit == 1, "C08 first unit buffered"); REACH("plain-first"); }
}
#endif
