/* C08 bounded harness: CR / CR LF folding of one buffer fill by get_more_chars(), compared unit by unit with the
 * specification "CR LF -> LF, lone CR -> LF" (the pair is folded when both halves arrive in the same fill). */
#include "config.h"
#include <unicode/ustring.h>
#include "cif.h"
#include "internal/utils.h"
#include "common.h"
#include "icu_prims.h"
#include "parser.c"
#ifndef MAXFILL
#define MAXFILL 6
#endif
#define BUFUNITS 32

struct in_fold { UChar raw[MAXFILL]; long n; UChar pre[2]; size_t npre; };
DECL_IN(in_fold)
static struct in_fold g_in;
static ssize_t fill_read_func(void *src, UChar *dest, ssize_t count, int *err) {
    ssize_t n = g_in.n < count ? g_in.n : count;
    for (ssize_t i = 0; i < MAXFILL; i++) if (i < n) dest[i] = g_in.raw[i];
    return n;
}
void harness_fold_fill(void) {
    struct in_fold in = GET_IN(in_fold);
    PRE(in.n >= 1 && in.n <= MAXFILL && in.npre <= 2);
    PRE(in.pre[0] != 0x0D && in.pre[1] != 0x0D);    /* what is already buffered has been folded by earlier calls */
    g_in = in;
    struct scanner_s *s = malloc(sizeof *s); PRE(s != NULL);
    s->buffer = malloc(BUFUNITS * sizeof(UChar)); PRE(s->buffer != NULL);
    /* a buffer that already holds npre unconsumed units of the current token; BUFUNITS is far below BUF_MIN_FILL, so the
     * call first compacts or grows the buffer and then appends the fill */
    for (size_t i = 0; i < 2; i++) s->buffer[i] = in.pre[i];
    s->buffer_size = BUFUNITS; s->buffer_limit = in.npre;
    s->text_start = s->buffer; s->tvalue_start = s->buffer; s->next_char = s->buffer + in.npre;
    s->at_eof = 0; s->read_func = fill_read_func; s->char_source = NULL;
    int r = get_more_chars(s);
    PRE(r == CIF_OK);   /* allocation failure of the growth path is covered by the bookkeeping job */
    /* specification of the appended region */
    UChar want[MAXFILL]; size_t nw = 0;
    for (long i = 0; i < MAXFILL; i++) {
        if (i < in.n) {
            if (in.raw[i] == 0x0D) { if (!(i + 1 < in.n && in.raw[i + 1] == 0x0A)) want[nw++] = 0x0A; /* else: dropped, the LF follows */ }
            else want[nw++] = in.raw[i];
        }
    }
    POST(s->buffer_limit == in.npre + nw, "C08 buffer limit = old content + folded length of the fill (CR LF counts once)");
    for (size_t i = 0; i < MAXFILL; i++) if (i < nw) POST(s->buffer[in.npre + i] == want[i], "C08 appended units = CR/CR LF-folded input");
    for (size_t i = 0; i < 2; i++) if (i < in.npre) POST(s->buffer[i] == in.pre[i], "C08 already buffered units untouched");
    if (nw < (size_t)in.n) REACH("pair-folded"); else REACH("no-pair");
    free(s->buffer); free(s);
}
