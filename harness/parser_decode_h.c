/* C01 / C08 bounded harness: decode_text() against a reference decoder of the CIF 2.0 text-prefix and line-folding protocols. */
#include "config.h"
#include <unicode/ustring.h>
#include "cif.h"
#include "internal/utils.h"
#include "common.h"
#ifndef MAXD
#define MAXD 6
#endif
/* models of what decode_text calls outside parser.c (trusted): they record what the function hands over */
static UChar *g_out_text; static int g_init_char_calls;
#ifndef VERIF_REPLAY
int nondet_int(void);
int cif_value_create(cif_kind_tp kind, cif_value_tp **value) { return CIF_ERROR; }      /* not reached: the harness supplies the value object */
int cif_value_init(cif_value_tp *value, cif_kind_tp kind) { return CIF_OK; }
int cif_value_init_char(cif_value_tp *value, UChar *text) { g_out_text = text; g_init_char_calls++; return CIF_OK; }
void cif_value_free(cif_value_tp *value) { }
UChar *u_strncpy(UChar *dst, const UChar *src, int32_t n) { for (int32_t i = 0; i < n && i < MAXD + 1; i++) dst[i] = src[i]; return dst; }
int32_t u_strncmp(const UChar *a, const UChar *b, int32_t n) { for (int32_t i = 0; i < n && i < MAXD + 1; i++) { if (a[i] != b[i]) return a[i] < b[i] ? -1 : 1; if (!a[i]) return 0; } return 0; }
#endif
#include "parser.c"

/* ---- reference decoder, written from the CIF 2.0 specification of text fields ------------------------------------------------
 * (1) the text-prefix protocol: the first line is <prefix>\ or <prefix>\\ followed only by blanks; every later line that starts
 *     with the prefix loses it; the first line is not part of the value; (2) line folding: the first line is \ (after an optional
 *     prefix) followed only by blanks; a later line ending in \ + blanks + terminator is joined with the next one; (3) every line
 *     terminator (LF, CR, CR LF) reads as one LF; a field starting with ';' uses neither protocol. */
static int r_is_eol(UChar c) { return c == 0x0A || c == 0x0D; }
static int r_is_blank(UChar c) { return c == 0x20 || c == 0x09; }
static size_t r_decode(const UChar *t, size_t n, int enabled, UChar *out) {
    size_t o = 0, i = 0, first_end, plen = 0; int folded = 0, proto = 0;
    /* first line */
    for (first_end = 0; first_end < n && !r_is_eol(t[first_end]); first_end++) { }
    if (enabled && n > 0 && t[0] != ';') {
        size_t nbs = 0, last = 0, k; int blank_tail = 1;
        for (k = 0; k < first_end; k++) if (t[k] == '\\') { nbs++; last = k; }
        for (k = nbs ? last + 1 : 0; k < first_end; k++) if (!r_is_blank(t[k])) blank_tail = 0;
        if (nbs == 1 && blank_tail) { proto = 1; plen = last; folded = (plen == 0); }
        else if (nbs == 2 && blank_tail && last >= 2 && t[last - 1] == '\\') { proto = 1; plen = last - 1; folded = 1; }
    }
    if (proto) {   /* skip the first line and its terminator */
        i = first_end;
        if (i < n) { if (t[i] == 0x0D && i + 1 < n && t[i + 1] == 0x0A) i += 2; else i += 1; }
    }
    while (i < n) {   /* one logical line per iteration */
        size_t line_out = o; long bs = -1;
        if (proto && plen > 0 && n - i >= plen) { size_t k; int m = 1; for (k = 0; k < plen; k++) if (t[i + k] != t[k]) m = 0; if (m) i += plen; }
        while (i < n) {
            UChar c = t[i++];
            if (r_is_eol(c)) {
                if (c == 0x0D && i < n && t[i] == 0x0A) i++;
                if (folded && bs >= 0) o = (size_t)bs; else out[o++] = 0x0A;
                break;
            }
            out[o++] = c;
            if (c == '\\' && folded) bs = (long)(o - 1); else if (!r_is_blank(c)) bs = -1;
        }
        (void)line_out;
    }
    return o;
}

struct in_dec { UChar text[MAXD]; int32_t n; int enabled; };
DECL_IN(in_dec)
void harness_decode_text(void) {
    struct in_dec in = GET_IN(in_dec);
#ifdef FIXN
    in.n = FIXN;   /* one job per concrete length: a symbolic-size malloc inside decode_text exhausts memory in CBMC's array post-processing */
#endif
    PRE(in.n >= 1 && in.n <= MAXD);
    for (int i = 0; i < MAXD; i++) PRE(i >= in.n || (in.text[i] != 0 && in.text[i] < 0xFFFF));
    struct scanner_s *s = malloc(sizeof *s); PRE(s != NULL);
    char none = 0;
    s->cif_version = 2; s->line_unfolding = 0; s->prefix_removing = 0;
    INIT_V2_SCANNER(s, &none, &none);          /* the real table initialisation, default options */
    if (!in.enabled) { s->line_unfolding = 0; s->prefix_removing = 0; }   /* CIF 1.1 without the optional decoding */
    UChar *text = malloc(in.n * sizeof(UChar)); PRE(text != NULL);
    for (int i = 0; i < MAXD; i++) if (i < in.n) text[i] = in.text[i];
    cif_value_tp *v = malloc(sizeof *v); PRE(v != NULL); v->kind = CIF_UNK_KIND;
    cif_value_tp *dest = v;
    g_out_text = NULL; g_init_char_calls = 0;
    int r = decode_text(s, text, in.n, &dest);
    PRE(r == CIF_OK);    /* allocation failure aside */
    UChar want[MAXD + 1]; size_t nw = r_decode(in.text, (size_t)in.n, in.enabled != 0, want);
    POST(g_init_char_calls == 1 && g_out_text != NULL && dest == v, "C01 decode_text hands exactly one text to the value");
    int same = 1; for (size_t k = 0; k < MAXD; k++) if (k < nw && g_out_text[k] != want[k]) same = 0;
    POST(same && g_out_text[nw] == 0, "C01 text field decodes to what the prefix / folding protocols and terminator normalisation denote");
    if (nw < (size_t)in.n) REACH("decoded-shorter"); else REACH("verbatim");
    free(g_out_text); free(text); free(v); free(s);
}
