/* C06 harnesses: packet iterator life cycle over the SQLite transaction model. */
#include "pktitr.h"
#include "pktitr.c"

/* the CIF / container / loop handles are static objects (zero-initialised): pointer chains through them stay precise for CBMC */
static cif_tp the_cif; static cif_container_tp the_container; static cif_loop_tp the_loop;
static cif_pktitr_tp *make_iterator(int with_stmts) {
    cif_tp *cif = &the_cif;
    cif->db = (sqlite3 *)&g_cat_kind;   /* an opaque non-NULL handle */
    if (with_stmts & 1) { cif->remove_packet_stmt = malloc(sizeof(struct sqlite3_stmt)); __CPROVER_assume(cif->remove_packet_stmt != NULL); cif->remove_packet_stmt->is_write = 1; }
    if (with_stmts & 2) { cif->reset_packet_num_stmt = malloc(sizeof(struct sqlite3_stmt)); __CPROVER_assume(cif->reset_packet_num_stmt != NULL); cif->reset_packet_num_stmt->is_write = 1; }
    if (with_stmts & 4) { cif->update_value_stmt = malloc(sizeof(struct sqlite3_stmt)); __CPROVER_assume(cif->update_value_stmt != NULL); cif->update_value_stmt->is_write = 1; }
    the_container.cif = cif; the_container.id = 1;
    the_loop.container = &the_container; the_loop.loop_num = nondet_int();
    cif_pktitr_tp *it = malloc(sizeof *it); __CPROVER_assume(it != NULL);
    it->stmt = NULL; it->loop = &the_loop; it->item_names = NULL; it->name_set = NULL; it->previous_row_num = nondet_int(); it->finished = nondet_int();
    return it;
}
static void sql_state(void) {
    g_tx_open = nondet_int() ? 1 : 0; g_sp_depth = nondet_int(); __CPROVER_assume(g_sp_depth >= 0 && g_sp_depth < 1000 && (g_tx_open || g_sp_depth == 0));
    g_tx_writes = (unsigned)nondet_int() % 1000; g_sp_writes = (unsigned)nondet_int() % 1000; __CPROVER_assume(g_sp_writes <= g_tx_writes);
    g_durable_writes = (unsigned)nondet_int() % 1000; g_lost_writes = (unsigned)nondet_int() % 1000;
    g_commits = g_rollbacks = g_begins = g_saves = g_releases = g_rollback_tos = g_write_steps = g_finalized = 0;
}
void harness_remove_packet(void) {
    cif_pktitr_tp *it = make_iterator(nondet_int());
    sql_state(); g_cat_kind = nondet_int(); __CPROVER_assume(g_cat_kind >= 0 && g_cat_kind <= 3);
    int prev = it->previous_row_num, open0 = g_tx_open; unsigned dur0 = g_durable_writes;
    int r = cif_pktitr_remove_packet(it);
    POST(open0 || r == CIF_INVALID_HANDLE, "C06 a stale iterator (no transaction open) is refused with CIF_INVALID_HANDLE");
    POST(!(open0 && prev <= 0) || (r == CIF_MISUSE && g_write_steps == 0), "C06 remove without a current packet is CIF_MISUSE and writes nothing");
    POST(r != CIF_OK || it->previous_row_num == -1, "C06 after a successful remove there is no current packet (a second remove / update is CIF_MISUSE)");
    POST(r == CIF_OK || g_durable_writes == dur0, "C05 a failed remove makes nothing durable");
    if (r == CIF_OK && g_cat_kind == 1) REACH("removed-scalar"); if (r == CIF_OK && g_cat_kind != 1) REACH("removed"); if (r == CIF_MISUSE) REACH("misuse"); if (r != CIF_OK && g_write_steps) REACH("rolled-back");
}
void harness_update_packet(void) {
    cif_pktitr_tp *it = make_iterator(nondet_int());
    sql_state();
    cif_packet_tp *p = malloc(sizeof *p); __CPROVER_assume(p != NULL); p->map.head = NULL; p->map.is_standalone = 1; p->map.normalizer = NULL;
    int prev = it->previous_row_num, open0 = g_tx_open;
    int r = cif_pktitr_update_packet(it, p);
    POST(open0 || r == CIF_INVALID_HANDLE, "C06 a stale iterator is refused with CIF_INVALID_HANDLE");
    POST(!(open0 && prev <= 0) || (r == CIF_MISUSE && g_write_steps == 0), "C06 update without a current packet is CIF_MISUSE and writes nothing");
    if (r == CIF_OK) REACH("updated"); if (r == CIF_MISUSE) REACH("misuse");
}
void harness_close(void) {
    cif_pktitr_tp *it = make_iterator(0);
    sql_state(); __CPROVER_assume(g_tx_open);
    unsigned w = g_tx_writes, dur0 = g_durable_writes;
    int r = cif_pktitr_close(it);
    POST(r != CIF_OK || (!g_tx_open && g_durable_writes == dur0 + w), "C06 close makes every change made through the iterator permanent and ends the transaction");
    POST(r == CIF_OK || g_durable_writes == dur0, "C06 a failed close commits nothing (rollback attempted)");
    if (r == CIF_OK) REACH("closed"); else REACH("close-failed");
}
void harness_abort(void) {
    cif_pktitr_tp *it = make_iterator(0);
    sql_state(); __CPROVER_assume(g_tx_open);
    unsigned dur0 = g_durable_writes;
    int r = cif_pktitr_abort(it);
    POST(g_durable_writes == dur0 && g_commits == 0, "C06 abort never makes a change permanent");
    POST(r != CIF_OK || !g_tx_open, "C06 after abort the CIF is free for ordinary operations again");
    if (r == CIF_OK) REACH("aborted"); else REACH("abort-failed");
}
