/* C06 harnesses: packet iterator life cycle over the SQLite transaction model. */
#include "pktitr.h"
#include "pktitr.c"

/* the CIF / container / loop handles are static objects: pointer chains through them stay precise for CBMC */
static cif_tp the_cif; static cif_container_tp the_container; static cif_loop_tp the_loop;
static cif_pktitr_tp *make_iterator(int with_stmts) {
    cif_tp *cif = &the_cif;
    cif->db = (sqlite3 *)&g_cat_kind;   /* an opaque non-NULL handle */
    /* NB: under goto-instrument --dfcc objects of static lifetime start with arbitrary content, not zeroes: every field that is read must be set here */
    g_stmt_pool[0].is_write = 0; g_stmt_pool[1].is_write = 1;
    cif->remove_packet_stmt = (with_stmts & 1) ? &g_stmt_pool[1] : NULL;
    cif->reset_packet_num_stmt = (with_stmts & 2) ? &g_stmt_pool[1] : NULL;
    cif->update_value_stmt = (with_stmts & 4) ? &g_stmt_pool[1] : NULL;
    cif->get_packet_num_stmt = NULL; cif->update_packet_num_stmt = NULL; cif->insert_value_stmt = NULL;
    the_container.cif = cif; the_container.id = 1;
    the_loop.container = &the_container; the_loop.loop_num = nondet_int();
    cif_pktitr_tp *it = malloc(sizeof *it); __CPROVER_assume(it != NULL);
    it->stmt = NULL; it->loop = &the_loop; it->item_names = NULL; it->name_set = NULL; it->previous_row_num = nondet_int(); it->finished = nondet_int();
    return it;
}
unsigned nondet_unsigned(void);
static void sql_state(void) {
    g_tx_open = nondet_int() ? 1 : 0; g_tx_by_sp = 0; g_sp_depth = nondet_int(); g_undo_failed = 0;
    g_tx_writes = nondet_unsigned(); g_durable_writes = nondet_unsigned(); g_lost_writes = nondet_unsigned();
    g_sp_mark[0] = nondet_unsigned(); g_sp_mark[1] = nondet_unsigned(); g_sp_mark[2] = nondet_unsigned(); g_sp_mark[3] = nondet_unsigned();
    g_commits = g_rollbacks = g_begins = g_saves = g_releases = g_rollback_tos = g_write_steps = g_finalized = 0;
    __CPROVER_assume(SQL_ENTRY);
}
void harness_remove_packet(void) {
    cif_pktitr_tp *it = make_iterator(nondet_int());
    sql_state(); g_cat_kind = nondet_int(); __CPROVER_assume(g_cat_kind >= 0 && g_cat_kind <= 3);
    int prev = it->previous_row_num, open0 = g_tx_open; unsigned dur0 = g_durable_writes, lost0 = g_lost_writes;
    int r = cif_pktitr_remove_packet(it);
    POST(open0 || r == CIF_INVALID_HANDLE, "C06 a stale iterator (no transaction open) is refused with CIF_INVALID_HANDLE");
    POST(!(open0 && prev <= 0) || (r == CIF_MISUSE && g_write_steps == 0), "C06 remove without a current packet is CIF_MISUSE and writes nothing");
    POST(r != CIF_OK || it->previous_row_num == -1, "C06 after a successful remove there is no current packet (a second remove / update is CIF_MISUSE)");
    POST(r == CIF_OK || g_durable_writes == dur0, "C05 a failed remove makes nothing durable");
    POST(r == CIF_OK || g_undo_failed || (g_tx_open == open0 && g_lost_writes - lost0 == g_write_steps), "C05 a failed remove undoes exactly what it wrote and leaves the enclosing transaction open");
    if (r == CIF_OK && g_cat_kind == 1) REACH("removed-scalar"); if (r == CIF_OK && g_cat_kind != 1) REACH("removed"); if (r == CIF_MISUSE) REACH("misuse"); if (r != CIF_OK && g_write_steps) REACH("rolled-back");
}
void harness_update_packet(void) {
    cif_pktitr_tp *it = make_iterator(nondet_int());
    sql_state();
    cif_packet_tp *p = malloc(sizeof *p); __CPROVER_assume(p != NULL); p->map.head = NULL; p->map.is_standalone = 1; p->map.normalizer = NULL;
    if (nondet_int()) { struct entry_s *e = malloc(sizeof *e); __CPROVER_assume(e != NULL); e->hh.next = NULL; e->hh.prev = NULL; e->key = NULL; e->key_orig = NULL; p->map.head = e; }
    int prev = it->previous_row_num, open0 = g_tx_open;
    int r = cif_pktitr_update_packet(it, p);
    POST(open0 || r == CIF_INVALID_HANDLE, "C06 a stale iterator is refused with CIF_INVALID_HANDLE");
    POST(!(open0 && prev <= 0) || (r == CIF_MISUSE && g_write_steps == 0), "C06 update without a current packet is CIF_MISUSE and writes nothing");
    if (r == CIF_OK) REACH("updated"); if (r == CIF_MISUSE) REACH("misuse"); if (r == CIF_WRONG_LOOP) REACH("wrong-loop");
}
void harness_close(void) {
    cif_pktitr_tp *it = make_iterator(0);
    sql_state(); __CPROVER_assume(g_tx_open);
    unsigned w = g_tx_writes, dur0 = g_durable_writes;
    int r = cif_pktitr_close(it);
    POST(r != CIF_OK || (!g_tx_open && g_durable_writes == dur0 + w), "C06 close makes every change made through the iterator permanent and ends the transaction");
    POST(r == CIF_OK || g_durable_writes == dur0, "C06 a failed close commits nothing (rollback attempted)");
    if (r == CIF_OK) REACH("closed"); else REACH("close-failed");
}
void harness_abort(void) {
    cif_pktitr_tp *it = make_iterator(0);
    sql_state(); __CPROVER_assume(g_tx_open);
    unsigned dur0 = g_durable_writes;
    int r = cif_pktitr_abort(it);
    POST(g_durable_writes == dur0 && g_commits == 0, "C06 abort never makes a change permanent");
    POST(r != CIF_OK || !g_tx_open, "C06 after abort the CIF is free for ordinary operations again");
    if (r == CIF_OK) REACH("aborted"); else REACH("abort-failed");
}
