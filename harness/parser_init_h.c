/* C11 stage 2 harness: cif_parse_internal() for every initial version code, encoding flag, first characters and first-token shape. */
#include "parser_init.h"
#include "parser.c"
int nondet_int(void);
static int e_cb(int code, size_t line, size_t column, const UChar *text, size_t length, void *data) {
    __CPROVER_assert(line >= 1, "C03 error callback gets a line number >= 1");
    if (code == CIF_WRONG_ENCODING) g_err_wrongenc++; else if (code == CIF_DISALLOWED_CHAR) g_err_disallowed++; else g_err_other++;
    g_err_answer = nondet_int();
    return g_err_answer;
}
void harness_parse_internal(void) {
    struct scanner_s *s = malloc(sizeof *s); __CPROVER_assume(s != NULL);
    s->error_callback = e_cb; s->user_data = NULL; s->handler = NULL; s->at_eof = 0; s->line_unfolding = 0; s->prefix_removing = 0;
    s->cif_version = nondet_int(); __CPROVER_assume(s->cif_version == 2 || s->cif_version == 1 || s->cif_version == 0 || s->cif_version == -2);
    g_scanner = s;
    g_c0 = (UChar)nondet_int(); g_c1 = (UChar)nondet_int(); g_first_rc = nondet_int(); g_more_rc = nondet_int(); g_scan_rc = nondet_int();
    g_tok_len = (size_t)nondet_int(); g_is_magic2 = nondet_int() ? 1 : 0; g_is_magic_prefix = (g_is_magic2 || nondet_int()) ? 1 : 0;
    g_pc_calls = 0; g_err_wrongenc = 0; g_err_disallowed = 0; g_err_other = 0;
    char ws[3], eol[3]; ws[0] = (char)nondet_int(); ws[1] = (char)nondet_int(); ws[2] = 0; eol[0] = (char)nondet_int(); eol[1] = (char)nondet_int(); eol[2] = 0;
    int not_utf8 = nondet_int(), v0 = s->cif_version, cobj;
    int r = cif_parse_internal(s, not_utf8, nondet_int() ? ws : NULL, nondet_int() ? eol : NULL, (cif_tp *)&cobj);
    POST(g_pc_calls == 0 || g_pc_version == SPEC_FINAL_VERSION(v0), "C11 CIF version = version comment / prefer_cif2 table");
    POST(!(g_pc_calls == 1 && g_pc_version == 2 && not_utf8 != 0) || g_pc_wrongenc_seen == 1, "C11 CIF 2.0 in a non-UTF-8 encoding is reported as CIF_WRONG_ENCODING");
    if (g_pc_calls && g_pc_version == 2) REACH("as-cif2"); if (g_pc_calls && g_pc_version == 1) REACH("as-cif1"); if (g_err_wrongenc) REACH("wrong-encoding"); if (g_err_disallowed) REACH("bom-in-cif1");
    (void)r;
}
