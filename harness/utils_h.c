/* Harnesses for /repo/src/utils.c.  One entry function per job (lib/vlib.py, props/*.py). */
#include "utils.h"        /* contracts (forward declarations) */
#include "utils.c"        /* the real code: scratch copy with loop contracts under CBMC, /repo/src natively */
#ifndef VERIF_REPLAY
/* reference body of ICU u_strcpy for the short constant delimiter strings cif_analyze_string copies (trusted model) */
UChar *u_strcpy(UChar *dst, const UChar *src) { dst[0] = src[0]; if (src[0]) { dst[1] = src[1]; if (src[1]) { dst[2] = src[2]; if (src[2]) { dst[3] = src[3]; } } } return dst; }
#endif

struct in_str { UChar str[MAXN]; size_t len; int flag; int32_t cp; };
#ifndef VERIF_REPLAY
struct in_str nondet_in(void);
#endif
#define IN_IS_USTR(in) ((in).len < MAXN && (in).str[(in).len] == 0 && FORALL_LT(_j, (in).len, (in).str[_j] != 0))

void harness_has_whitespace(void) {
    struct in_str in = NONDET_IN(struct in_str);
    PRE(IN_IS_USTR(in));
    g_len = in.len;
    int r = cif_has_whitespace(in.str);
    POST(SPEC_HAS_WHITESPACE(in.str, in.len, r), "C09 cif_has_whitespace = exists unit <= U+0020");
    if (r) REACH("ws-found"); else REACH("ws-none");
}

void harness_has_disallowed_chars(void) {
    struct in_str in = NONDET_IN(struct in_str);
    PRE(IN_IS_USTR(in));
    g_len = in.len;
    int r = cif_has_disallowed_chars(in.str);
    POST(SPEC_HAS_DISALLOWED(in.str, in.len, r), "C09 cif_has_disallowed_chars = not every unit part of an allowed well-formed scalar");
    if (r) REACH("bad-found"); else REACH("all-allowed");
}

void harness_is_reserved_string(void) {
    struct in_str in = NONDET_IN(struct in_str);
    PRE(IN_IS_USTR(in));
    g_len = in.len;
    /* exactly len+1 units are readable: a read past the terminator is an out-of-bounds obligation */
    UChar *s = malloc((in.len + 1) * sizeof(UChar));
    PRE(s != NULL);
    memcpy(s, in.str, (in.len + 1) * sizeof(UChar));
    int r = cif_is_reserved_string(s);
    POST(SPEC_IS_RESERVED(in.str, r), "C18 cif_is_reserved_string = reserved first character or reserved-word form");
    if (r) REACH("reserved"); else REACH("not-reserved");
    free(s);
}

void harness_is_valid_name(void) {
    struct in_str in = NONDET_IN(struct in_str);
    PRE(IN_IS_USTR(in));
    PRE(in.cp >= 0);
    g_len = in.len;
    g_cp_count = in.cp;
    int r = cif_is_valid_name(in.flag == 2 ? NULL : in.str, in.flag & 1);
    if (in.flag == 2) POST(r == 0, "C09 NULL name is invalid");
    else POST(SPEC_VALID_NAME(in.str, in.len, in.flag & 1, in.cp, r), "C09 name accepted exactly when it meets the validity rules");
    if (r) REACH("valid"); else REACH("invalid");
}

/* ---- cif_unicode_normalize: buffer management around ICU, under failing allocations (C16 / C17 / C09) -------------------- */
struct in_norm { UChar str[MAXN]; size_t len; int32_t srclen; int32_t norm_len; int norm_fail; int terminate; };
DECL_IN(in_norm)
void harness_unicode_normalize(void) {
    struct in_norm in = GET_IN(in_norm);
    PRE(IN_IS_USTR(in));
    PRE(in.norm_len >= 0 && in.norm_len < MAXN - 1 && (in.srclen < 0 || (size_t)in.srclen <= in.len));
    g_len = in.len; g_norm_len = in.norm_len; g_norm_fail = in.norm_fail; g_pipe_on = 0;
    UChar *out = NULL; int32_t outlen = -7;
    int r = cif_unicode_normalize(in.str, in.srclen, UNORM_NFC, &out, &outlen, in.terminate);
    POST(r == CIF_OK || r == CIF_MEMORY_ERROR || r == CIF_ERROR, "C17 cif_unicode_normalize returns OK, MEMORY_ERROR or ERROR");
    if (r == CIF_OK) { POST(out != NULL && outlen == in.norm_len, "C09 normalised buffer and length handed out"); REACH("normalised"); free(out); }
    else { POST(out == NULL && outlen == -7, "C17 failed normalisation leaves the outputs untouched"); REACH("norm-failed"); }
    /* nothing may remain allocated here: --memory-leak-check */
}

/* ---- cif_normalize: NFD -> case fold -> NFC, buffers released on every path (C09 / C17) ------------------------------- */
void harness_cif_normalize(void) {
    struct in_norm in = GET_IN(in_norm);
    PRE(IN_IS_USTR(in));
    PRE(in.norm_len >= 0 && in.norm_len < MAXN - 1 && (in.srclen < 0 || (size_t)in.srclen <= in.len));
    g_len = in.len; g_norm_len = in.norm_len; g_pipe_on = 1; g_pipe_n = 0; g_fold_calls = 0;
    UChar *out = NULL;
    int r = cif_normalize(in.str, in.srclen, in.terminate ? &out : NULL);
    if (r == CIF_OK) {
        POST(g_pipe_n == 2 && g_pipe_first_mode == (int)UNORM_NFD && g_fold_at == 1 && g_pipe_last_mode == (int)UNORM_NFC, "C09 normalisation pipeline is NFD, case fold, NFC in that order");
        REACH("normalized"); if (in.terminate) free(out);
    } else { POST(out == NULL, "C17 failed normalisation leaves the output untouched"); REACH("normalize-failed"); }
}

/* ---- cif_analyze_string (C18) ---------------------------------------------------------------------------------------------- */
struct in_an { UChar str[MAXN]; size_t len; int au, atq; int32_t limit; };
DECL_IN(in_an)
static int an_is_term(const UChar *s, size_t j) { return s[j] == 0x0A || (s[j] == 0x0D && s[j + 1] != 0x0A); }
/* reference statistics, written from the documentation of struct cif_string_analysis_s */
static void an_ghosts(const UChar *s, size_t len) {
    static const UChar chs[10] = { 0x20, 0x09, 0x5B, 0x5D, 0x7B, 0x7D, 0x27, 0x22, 0x0A, 0x0D };
    gs_lines[0] = gs_cur[0] = gs_first[0] = gs_max[0] = gs_semi[0] = gs_most[0] = gs_crlf[0] = 0; gs_nlsemi[0] = 0;
    for (int k = 0; k < 10; k++) gs_cnt[k][0] = 0;
    gs_has_apos3 = gs_has_quot3 = 0;
    for (size_t j = 0; j < MAXN; j++) {
        if (j < len) {
            UChar c = s[j];
            int term = an_is_term(s, j), crlf_cr = (c == 0x0D && s[j + 1] == 0x0A);
            for (int k = 0; k < 10; k++) gs_cnt[k][j + 1] = gs_cnt[k][j] + (c == chs[k] ? 1 : 0);
            gs_crlf[j + 1] = gs_crlf[j] + (crlf_cr ? 1 : 0);
            gs_lines[j + 1] = gs_lines[j] + (term ? 1 : 0);
            gs_cur[j + 1] = term ? 0 : (crlf_cr ? gs_cur[j] : gs_cur[j] + 1);
            gs_first[j + 1] = (term && gs_lines[j] == 0) ? gs_cur[j] : gs_first[j];
            gs_max[j + 1] = (term && (gs_lines[j] == 0 || gs_cur[j] > gs_max[j])) ? gs_cur[j] : gs_max[j];
            gs_semi[j + 1] = (c == ';') ? gs_semi[j] + 1 : (crlf_cr ? gs_semi[j] : 0);
            gs_most[j + 1] = (c != ';' && !crlf_cr && gs_semi[j] > gs_most[j]) ? gs_semi[j] : gs_most[j];
            gs_nlsemi[j + 1] = gs_nlsemi[j] || (term && s[j + 1] == ';');
            if (j + 2 < len + 0 && c == 0x27 && s[j + 1] == 0x27 && s[j + 2] == 0x27) gs_has_apos3 = 1;
            if (j + 2 < len + 0 && c == 0x22 && s[j + 1] == 0x22 && s[j + 2] == 0x22) gs_has_quot3 = 1;
        }
    }
}
void harness_analyze_string(void) {
    struct in_an in = GET_IN(in_an);
    PRE(IN_IS_USTR(in));
    PRE(in.limit >= 8 && in.limit <= 4096);
    g_len = in.len; an_ghosts(in.str, in.len);
    struct cif_string_analysis_s *res = malloc(sizeof *res); PRE(res != NULL);
    int r = cif_analyze_string(in.str, in.au, in.atq, in.limit, res);
    size_t n = in.len;
    POST(r == CIF_OK && res->length == (int32_t)n && res->num_lines == 1 + gs_lines[n], "C18 length and number of lines exact");
    POST(res->length_last == gs_cur[n] && res->length_first == (gs_lines[n] == 0 ? gs_cur[n] : gs_first[n]), "C18 first / last line length exact");
    POST(res->length_max == (gs_lines[n] == 0 ? gs_cur[n] : (gs_cur[n] > gs_max[n] ? gs_cur[n] : gs_max[n])), "C18 longest line exact");
    POST(res->max_semi_run == (gs_semi[n] > gs_most[n] ? gs_semi[n] : gs_most[n]) && (res->contains_text_delim != 0) == (gs_nlsemi[n] != 0), "C18 semicolon run and newline-semicolon exact");
    POST(res->delim_length != 0 || (in.au && gs_lines[n] == 0 && BARE_OK(in.str, n)), "C18 no delimiter only for a string CIF 2.0 reads back whitespace-delimited");
    POST(res->delim_length != 1 || (gs_lines[n] == 0 && ((res->delim[0] == 0x27 && gs_cnt[6][n] == 0) || (res->delim[0] == 0x22 && gs_cnt[7][n] == 0))), "C18 single delimiter does not occur in the string");
    POST(res->delim_length != 3 || (in.atq && n > 0 && ((res->delim[0] == 0x27 && !gs_has_apos3 && in.str[n - 1] != 0x27) || (res->delim[0] == 0x22 && !gs_has_quot3 && in.str[n - 1] != 0x22))),
         "C18 triple delimiter neither occurs in the string nor can merge with its last character");
    if (res->delim_length == 0) REACH("bare"); if (res->delim_length == 1) REACH("quoted"); if (res->delim_length == 3) REACH("triple"); if (res->delim_length == 2) REACH("text-field");
    free(res);
}
