/* Harnesses for /repo/src/utils.c.  One entry function per job (lib/vlib.py, props/*.py). */
#include "utils.h"        /* contracts (forward declarations) */
#include "utils.c"        /* the real code: scratch copy with loop contracts under CBMC, /repo/src natively */

struct in_str { UChar str[MAXN]; size_t len; int flag; int32_t cp; };
#ifndef VERIF_REPLAY
struct in_str nondet_in(void);
#endif
#define IN_IS_USTR(in) ((in).len < MAXN && (in).str[(in).len] == 0 && FORALL_LT(_j, (in).len, (in).str[_j] != 0))

void harness_has_whitespace(void) {
    struct in_str in = NONDET_IN(struct in_str);
    PRE(IN_IS_USTR(in));
    g_len = in.len;
    int r = cif_has_whitespace(in.str);
    POST(SPEC_HAS_WHITESPACE(in.str, in.len, r), "C09 cif_has_whitespace = exists unit <= U+0020");
    if (r) REACH("ws-found"); else REACH("ws-none");
}

void harness_has_disallowed_chars(void) {
    struct in_str in = NONDET_IN(struct in_str);
    PRE(IN_IS_USTR(in));
    g_len = in.len;
    int r = cif_has_disallowed_chars(in.str);
    POST(SPEC_HAS_DISALLOWED(in.str, in.len, r), "C09 cif_has_disallowed_chars = not every unit part of an allowed well-formed scalar");
    if (r) REACH("bad-found"); else REACH("all-allowed");
}

void harness_is_reserved_string(void) {
    struct in_str in = NONDET_IN(struct in_str);
    PRE(IN_IS_USTR(in));
    g_len = in.len;
    /* exactly len+1 units are readable: a read past the terminator is an out-of-bounds obligation */
    UChar *s = malloc((in.len + 1) * sizeof(UChar));
    PRE(s != NULL);
    memcpy(s, in.str, (in.len + 1) * sizeof(UChar));
    int r = cif_is_reserved_string(s);
    POST(SPEC_IS_RESERVED(in.str, r), "C18 cif_is_reserved_string = reserved first character or reserved-word form");
    if (r) REACH("reserved"); else REACH("not-reserved");
    free(s);
}

void harness_is_valid_name(void) {
    struct in_str in = NONDET_IN(struct in_str);
    PRE(IN_IS_USTR(in));
    PRE(in.cp >= 0);
    g_len = in.len;
    g_cp_count = in.cp;
    int r = cif_is_valid_name(in.flag == 2 ? NULL : in.str, in.flag & 1);
    if (in.flag == 2) POST(r == 0, "C09 NULL name is invalid");
    else POST(SPEC_VALID_NAME(in.str, in.len, in.flag & 1, in.cp, r), "C09 name accepted exactly when it meets the validity rules");
    if (r) REACH("valid"); else REACH("invalid");
}

/* ---- cif_unicode_normalize: buffer management around ICU, under failing allocations (C16 / C17 / C09) -------------------- */
struct in_norm { UChar str[MAXN]; size_t len; int32_t srclen; int32_t norm_len; int norm_fail; int terminate; };
DECL_IN(in_norm)
void harness_unicode_normalize(void) {
    struct in_norm in = GET_IN(in_norm);
    PRE(IN_IS_USTR(in));
    PRE(in.norm_len >= 0 && in.norm_len < MAXN - 1 && (in.srclen < 0 || (size_t)in.srclen <= in.len));
    g_len = in.len; g_norm_len = in.norm_len; g_norm_fail = in.norm_fail; g_pipe_on = 0;
    UChar *out = NULL; int32_t outlen = -7;
    int r = cif_unicode_normalize(in.str, in.srclen, UNORM_NFC, &out, &outlen, in.terminate);
    POST(r == CIF_OK || r == CIF_MEMORY_ERROR || r == CIF_ERROR, "C17 cif_unicode_normalize returns OK, MEMORY_ERROR or ERROR");
    if (r == CIF_OK) { POST(out != NULL && outlen == in.norm_len, "C09 normalised buffer and length handed out"); REACH("normalised"); free(out); }
    else { POST(out == NULL && outlen == -7, "C17 failed normalisation leaves the outputs untouched"); REACH("norm-failed"); }
    /* nothing may remain allocated here: --memory-leak-check */
}

/* ---- cif_normalize: NFD -> case fold -> NFC, buffers released on every path (C09 / C17) ------------------------------- */
void harness_cif_normalize(void) {
    struct in_norm in = GET_IN(in_norm);
    PRE(IN_IS_USTR(in));
    PRE(in.norm_len >= 0 && in.norm_len < MAXN - 1 && (in.srclen < 0 || (size_t)in.srclen <= in.len));
    g_len = in.len; g_norm_len = in.norm_len; g_pipe_on = 1; g_pipe_n = 0; g_fold_calls = 0;
    UChar *out = NULL;
    int r = cif_normalize(in.str, in.srclen, in.terminate ? &out : NULL);
    if (r == CIF_OK) {
        POST(g_pipe_n == 2 && g_pipe_first_mode == (int)UNORM_NFD && g_fold_at == 1 && g_pipe_last_mode == (int)UNORM_NFC, "C09 normalisation pipeline is NFD, case fold, NFC in that order");
        REACH("normalized"); if (in.terminate) free(out);
    } else { POST(out == NULL, "C17 failed normalisation leaves the output untouched"); REACH("normalize-failed"); }
}
