/* C11 stage 1 harness: cif_parse() over all option values and all stream prefixes (loop-free: complete). */
#include "ciffile_parse.h"
#include "ciffile.c"

struct in_cp { int prefer_cif2, force, fold_mod, prefix_mod, maxdepth; unsigned char bytes[NBYTES]; size_t count; int ferr; int open_fails; int conv_is_utf8; int have_cifp; };
DECL_IN(in_cp)
static const char NAME_UTF8[8] = "UTF-8", NAME_OTHER[8] = "ibm-437", NAME_LATIN[8] = "ISO-8859";
static const char DFLT_NAME[] = "my-default";
void harness_cif_parse(void) {
    struct in_cp in = GET_IN(in_cp);
    PRE(in.count <= 4096);
    struct cif_parse_opts_s opts; memset(&opts, 0, sizeof opts);
    opts.prefer_cif2 = in.prefer_cif2; opts.force_default_encoding = in.force; opts.default_encoding_name = DFLT_NAME;
    opts.line_folding_modifier = in.fold_mod; opts.text_prefixing_modifier = in.prefix_mod; opts.max_frame_depth = in.maxdepth;
    memcpy(g_bytes, in.bytes, NBYTES); g_count = in.count; g_ferror = in.ferr; g_open_fails = in.open_fails;
    g_conv_name = in.conv_is_utf8 == 1 ? NAME_UTF8 : (in.conv_is_utf8 == 2 ? NAME_LATIN : NAME_OTHER);
    g_pi_calls = 0; g_open_calls = 0; g_close_calls = 0;
    int cifobj; cif_tp *cif = (cif_tp *)&cifobj;
    FILE *stream = (FILE *)&cifobj;
    int r = cif_parse(stream, &opts, in.have_cifp ? &cif : NULL);
    POST(g_pi_calls == 0 || g_pi_version == SPEC_VERSION(in.prefer_cif2, in.force != 0), "C11 CIF version handed to the parser is the documented one");
    POST(g_open_calls == 0 || g_enc_name == SPEC_ENCODING(in.prefer_cif2, in.force != 0, (const char *)DFLT_NAME), "C11 character encoding selected as documented");
    if (g_pi_calls && g_pi_version == 2) REACH("v2"); if (g_pi_calls && g_pi_version == 1) REACH("v1");
    if (g_pi_calls && g_pi_version == 0) REACH("v-by-comment"); if (g_pi_calls && g_pi_version == -2) REACH("v-by-comment-default2");
    if (g_pi_calls == 0) REACH("no-parse");
}
