/* C16 / C17 harness: cif_loop_set_category() with a real allocation behind cif_u_strdup, so that --memory-leak-check sees what the call leaves behind. */
#include "loop.h"
#include "loop.c"
int nondet_int(void); unsigned nondet_unsigned(void);
/* model of cif_u_strdup (utils.c) for strings of at most one unit: a malloc'd copy, or NULL when the allocation fails */
UChar *cif_u_strdup(const UChar *str) {
    if (str == NULL) return NULL;
    UChar *d = malloc(2 * sizeof(UChar));
    if (d != NULL) { d[0] = str[0]; d[1] = 0; }
    return d;
}
static cif_tp the_cif; static cif_container_tp the_container;
static void sql_state(void) {
    g_stmt_pool[0].is_write = 0; g_stmt_pool[1].is_write = 1;
    g_tx_open = nondet_int() ? 1 : 0; g_tx_by_sp = 0; g_sp_depth = nondet_int(); g_undo_failed = 0;
    g_tx_writes = nondet_unsigned(); g_durable_writes = nondet_unsigned(); g_lost_writes = nondet_unsigned();
    g_sp_mark[0] = nondet_unsigned(); g_sp_mark[1] = nondet_unsigned(); g_sp_mark[2] = nondet_unsigned(); g_sp_mark[3] = nondet_unsigned();
    g_commits = g_rollbacks = g_begins = g_saves = g_releases = g_rollback_tos = g_write_steps = g_finalized = 0;
    __CPROVER_assume(SQL_ENTRY);
}
void harness_set_category(void) {
    cif_tp *cif = &the_cif; cif->db = (sqlite3 *)&the_container;
    cif->set_loop_category_stmt = nondet_int() ? &g_stmt_pool[1] : NULL; cif->get_loop_names_stmt = nondet_int() ? &g_stmt_pool[0] : NULL;
    the_container.cif = nondet_int() ? cif : NULL; the_container.id = 1;
    sql_state();
    cif_loop_tp *loop = malloc(sizeof *loop); __CPROVER_assume(loop != NULL);
    loop->container = nondet_int() ? &the_container : NULL; loop->loop_num = nondet_int(); loop->names = NULL;
    loop->category = NULL;
    if (nondet_int()) { loop->category = malloc(2 * sizeof(UChar)); __CPROVER_assume(loop->category != NULL); loop->category[0] = nondet_int() ? 0 : 'c'; loop->category[1] = 0; }
    UChar cat[2]; cat[0] = nondet_int() ? 0 : 'k'; cat[1] = 0;
    const UChar *category = nondet_int() ? cat : NULL;
    int was_scalar = loop->category != NULL && loop->category[0] == 0;
    int r = cif_loop_set_category(loop, category);
    POST(!(was_scalar && category != NULL) || r == CIF_RESERVED_LOOP || r == CIF_MEMORY_ERROR || r == CIF_ERROR, "C05 the scalar loop cannot be given another category");
    if (r == CIF_RESERVED_LOOP) REACH("reserved"); if (r == CIF_OK) REACH("set"); if (r == CIF_MEMORY_ERROR) REACH("oom"); if (r == CIF_ERROR) REACH("sql-error");
    /* the caller owns the handle and its category and nothing else: with --memory-leak-check any other allocation left behind by the call is a leak */
    free(loop->category); free(loop);
}
