/* C02 / C13 harnesses: formatting functions of /repo/src/ciffile.c */
#include "ciffile_write.h"
#include "utils.c"     /* defines cif11_chars / cif11_chars_elements, the data cif_validate_cif11_characters builds its table from */
#include "ciffile.c"
#include "ciffile_write_post.h"

struct in_fold { UChar str[MAXN]; size_t len; int do_fold, target, window, for_prefix; };
DECL_IN(in_fold)
void harness_fold_line(void) {
    struct in_fold in = GET_IN(in_fold);
    PRE(in.len < MAXN && in.str[in.len] == 0 && FORALL_LT(_j, in.len, in.str[_j] != 0));
    PRE(in.target >= 2 && in.target < MAXN && in.window >= 1 && in.window < in.target);
    PRE(in.target + in.window + 2 < MAXN);
    g_len = in.len;
    int r = fold_line(in.str, in.do_fold, in.target, in.window, in.for_prefix);
    POST(r >= 0 && r <= (int)in.len, "C02 fold point within the line");
    POST(in.do_fold || r == (int)in.len, "C02 no folding requested: the whole line");
    POST(!(in.do_fold && r > 0 && r < (int)in.len) || ADMISSIBLE(in.str, r, in.for_prefix),
         "C02/C13 a fold never splits a surrogate pair and never puts ';' first on a continuation line of an unprefixed field");
    POST(!(in.do_fold && (int)in.len <= in.target + in.window) || r == (int)in.len, "C02 a line that fits is not folded");
    POST(!(in.do_fold && r > in.target + in.window) || FORALL_LT(_p, MAXN, IMPLIES(_p >= 1 && _p <= (size_t)(in.target + in.window), !ADMISSIBLE(in.str, _p, in.for_prefix))),
         "C02 folded segment longer than target+window only when no admissible fold point exists below");
    if (in.do_fold && r > 0 && r < (int)in.len) REACH("folded"); if (in.do_fold && r == 0) REACH("no-fold-point"); if (r == (int)in.len) REACH("whole-line");
}

/* ---- cif_validate_cif11_characters (C13) ------------------------------------------------------------------ */
struct in_c11 { UChar str[MAXN]; size_t len; int want_ptr; };
DECL_IN(in_c11)
void harness_validate_cif11(void) {
    struct in_c11 in = GET_IN(in_c11);
    PRE(in.len < MAXN && in.str[in.len] == 0 && FORALL_LT(_j, in.len, in.str[_j] != 0));
    g_len = in.len; g_str = in.str;
    UChar *bad = in.str + in.len;
    int r = cif_validate_cif11_characters(in.str, in.want_ptr ? &bad : NULL);
    POST((r == CIF_OK) == FORALL_LT(_c, in.len, CIF11_UNIT_OK(in.str[_c])), "C13 accepted exactly when every character is in the CIF 1.1 set");
    POST(r == CIF_OK || r == CIF_DISALLOWED_CHAR, "C13 result is CIF_OK or CIF_DISALLOWED_CHAR");
    if (in.want_ptr && r != CIF_OK) {
        size_t bi = (size_t)(bad - in.str);
        POST(bi < in.len, "C13 reported offender lies inside the string");
        POST(bi >= in.len || !CIF11_UNIT_OK(in.str[bi < MAXN ? bi : 0]), "C13 reported character is outside the CIF 1.1 set");
        POST(FORALL_LT(_c2, bi, CIF11_UNIT_OK(in.str[_c2])), "C13 the reported offender is the first one");
    }
    if (r == CIF_OK) REACH("cif11-ok"); else REACH("cif11-refused");
}

/* ---- models of the ICU output functions (trusted): they report some number of written code units or an error ----------- */
#ifndef VERIF_REPLAY
int nondet_int(void);
int32_t u_fprintf(UFILE *f, const char *patternSpecification, ...) { int32_t n = nondet_int(); __CPROVER_assume(n >= -1 && n <= 1000000); return n; }
UChar32 u_fputc(UChar32 uc, UFILE *f) { return nondet_int() ? U_EOF : uc; }
#endif

struct in_wq { int last_column; int32_t length; char delim; };
DECL_IN(in_wq)
void harness_write_quoted(void) {
    struct in_wq in = GET_IN(in_wq);
    PRE(in.last_column >= 0 && in.last_column <= CIF_LINE_LENGTH && in.length >= 0 && in.length <= CIF_LINE_LENGTH - 2);
    write_context_t ctx; UChar text[4] = { 'a', 0, 0, 0 };
    ctx.file = NULL; ctx.last_column = in.last_column; ctx.version = 0; ctx.depth = 0; ctx.separate_values = 1; ctx.write_item_names = 0;
    int r = write_quoted(&ctx, text, in.length, in.delim);
    POST(r != CIF_OK || (ctx.last_column <= CIF_LINE_LENGTH && (ctx.last_column == in.last_column + in.length + 2 || ctx.last_column == in.length + 2)), "C02/C13 quoted value never makes a line longer than 2048");
    if (r == CIF_OK) REACH("wq-ok"); else REACH("wq-error");
}
