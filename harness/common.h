/*
 * Shared harness vocabulary (DESIGN.md sections 3.5, 3.6, 4).
 *
 * The same harness translation unit is used twice:
 *  - under goto-cc/CBMC (default): inputs are nondeterministic, PRE() is an assumption made by
 *    the *harness* (never inside /repo code), POST() is an assertion (an obligation in its own
 *    right, next to the contract clauses that goto-instrument --dfcc checks), REACH() is a
 *    reachability canary: an assertion that MUST FAIL (vacuity guard, lib/vlib.py);
 *  - natively with -DVERIF_REPLAY: the input struct is the one extracted from a CBMC
 *    counterexample (REPLAY_IN_INIT), the real /repo function is called, and PRE/POST are
 *    evaluated as plain C: POST failing => exit status 1 (violation reproduced on the real code).
 */
#ifndef VERIF_COMMON_H
#define VERIF_COMMON_H

#include <stdlib.h>
#include <string.h>
#include <stdio.h>
#include <stdint.h>
#include <stddef.h>

#ifdef VERIF_REPLAY
/* contract syntax disappears natively */
#define __CPROVER_requires(...)
#define __CPROVER_ensures(...)
#define __CPROVER_assigns(...)
#define __CPROVER_frees(...)
#define __CPROVER_loop_invariant(...)
#define __CPROVER_decreases(...)
static int verif_replay_failed = 0;
static int verif_replay_status(void) { return verif_replay_failed ? 1 : 0; }
#define PRE(c) do { if (!(c)) { printf("REPLAY: precondition not met natively: %s\n", #c); exit(3); } } while (0)
#define POST(c, name) do { if (!(c)) { printf("REPLAY: oracle FAILED on the real code: %s : %s\n", name, #c); verif_replay_failed = 1; } \
                           } while (0)
#define REACH(tag) do { } while (0)
#define NONDET_IN(type) (*(type *)verif_replay_in)
static void *verif_replay_in;   /* set by the generated replay main() to the counterexample inputs */
#define DECL_IN(tag)
#define GET_IN(tag) (*(struct tag *)verif_replay_in)
#define GHOST(stmt) stmt
#else
#define PRE(c) __CPROVER_assume(c)
#define POST(c, name) __CPROVER_assert(c, name)
#define REACH(tag) __CPROVER_assert(0, "REACH " tag)
#define NONDET_IN(type) nondet_in()
#define DECL_IN(tag) struct tag nondet_##tag(void);
#define GET_IN(tag) nondet_##tag()
#define GHOST(stmt) stmt
#endif

#define OFF(p) ((size_t)__CPROVER_POINTER_OFFSET(p))

/* bounded quantifiers: constant range MAXN under CBMC (the only form the SAT back end decides
 * reliably, DESIGN.md 2/p2), plain loops natively */
#ifdef VERIF_REPLAY
#define EXISTS_LT(j, n, P) ({ int _r = 0; for (size_t j = 0; j < (size_t)(n); j++) if (P) { _r = 1; break; } _r; })
#define FORALL_LT(j, n, P) ({ int _r = 1; for (size_t j = 0; j < (size_t)(n); j++) if (!(P)) { _r = 0; break; } _r; })
#define IMPLIES(a, b) (!(a) || (b))
#else
#define EXISTS_LT(j, n, P) __CPROVER_exists { size_t j; (j < MAXN) && ((j < (size_t)(n)) && (P)) }
#define FORALL_LT(j, n, P) __CPROVER_forall { size_t j; (j < MAXN) ==> ((j < (size_t)(n)) ==> (P)) }
#define IMPLIES(a, b) ((a) ==> (b))
#endif

#endif
