/* C14 harnesses: the walker of /repo/src/cif.c, one entry per function under contract. */
#include "cif_walk.h"
#include "cif.c"

int nondet_int(void);
unsigned nondet_unsigned(void);

/* ---- handler stubs: every callback site of the walker ends up here ------------------------------ */
static int nav(void) {
    int r = nondet_int();
    if (IS_STOP(r)) { g_stopped = 1; g_stop_code = r; }
    return r;
}
#define CB_COMMON(ctx) do { \
    __CPROVER_assert(!g_stopped, "C14 no callback after END or an error"); \
    __CPROVER_assert((ctx) == g_ctx, "C14 context pointer passed through"); } while (0)
/* start/end callback of the element under verification (g_self): start first and once, end last and at most once;
 * SNAP_A/SNAP_B = how many children of the element's (first, second) sibling group were walked at that moment */
#define SELF_START(p, a, b) do { if ((void *)(p) == g_self) { \
    __CPROVER_assert(g_self_start == 0 && g_self_end == 0, "C14 start callback exactly once, before the end callback"); \
    g_self_start += 1; g_self_start_snap_a = (a); g_self_start_snap_b = (b); } } while (0)
/* g_self_start_ret: answer of the start callback of g_self (CONTINUE when none is registered) */

#define START_NAV(p) do { int _r = nav(); if ((void *)(p) == g_self) g_self_start_ret = _r; return _r; } while (0)
#define SELF_END(p, a, b) do { if ((void *)(p) == g_self) { \
    __CPROVER_assert(g_self_end == 0, "C14 end callback at most once"); \
    g_self_start_at_end = g_self_start; g_self_end += 1; g_self_end_snap_a = (a); g_self_end_snap_b = (b); } } while (0)

UChar *g_self_name;
static int stub_item(UChar *name, cif_value_tp *value, void *ctx) {
    CB_COMMON(ctx);
    if ((void *)value == g_self) { __CPROVER_assert(name == g_self_name, "C14 item callback gets its own name"); g_self_start += 1; }
    return nav();
}
static int stub_packet_start(cif_packet_tp *p, void *ctx) { CB_COMMON(ctx); SELF_START(p, g_item_calls, 0); START_NAV(p); }
static int stub_packet_end(cif_packet_tp *p, void *ctx)   { CB_COMMON(ctx); SELF_END(p, g_item_calls, 0); return nav(); }
static int stub_loop_start(cif_loop_tp *l, void *ctx)     { CB_COMMON(ctx); SELF_START(l, g_packet_calls, 0); START_NAV(l); }
static int stub_loop_end(cif_loop_tp *l, void *ctx)       { CB_COMMON(ctx); SELF_END(l, g_packet_calls, 0); return nav(); }
static int stub_block_start(cif_container_tp *c, void *ctx) { CB_COMMON(ctx); SELF_START(c, g_frame_calls, g_loop_calls); START_NAV(c); }
static int stub_block_end(cif_container_tp *c, void *ctx)   { CB_COMMON(ctx); SELF_END(c, g_frame_calls, g_loop_calls); return nav(); }
static int stub_frame_start(cif_container_tp *c, void *ctx) { CB_COMMON(ctx); SELF_START(c, g_frame_calls, g_loop_calls); START_NAV(c); }
static int stub_frame_end(cif_container_tp *c, void *ctx)   { CB_COMMON(ctx); SELF_END(c, g_frame_calls, g_loop_calls); return nav(); }
static int stub_cif_start(cif_tp *c, void *ctx)           { CB_COMMON(ctx); SELF_START(c, g_block_calls, 0); START_NAV(c); }
static int stub_cif_end(cif_tp *c, void *ctx)             { CB_COMMON(ctx); SELF_END(c, g_block_calls, 0); return nav(); }

/* a handler table with an arbitrary subset of the eleven callbacks registered */
static void make_handler(cif_handler_tp *h, unsigned mask) {
    h->handle_cif_start = (mask & 1) ? stub_cif_start : NULL;
    h->handle_cif_end = (mask & 2) ? stub_cif_end : NULL;
    h->handle_block_start = (mask & 4) ? stub_block_start : NULL;
    h->handle_block_end = (mask & 8) ? stub_block_end : NULL;
    h->handle_frame_start = (mask & 16) ? stub_frame_start : NULL;
    h->handle_frame_end = (mask & 32) ? stub_frame_end : NULL;
    h->handle_loop_start = (mask & 64) ? stub_loop_start : NULL;
    h->handle_loop_end = (mask & 128) ? stub_loop_end : NULL;
    h->handle_packet_start = (mask & 256) ? stub_packet_start : NULL;
    h->handle_packet_end = (mask & 512) ? stub_packet_end : NULL;
    h->handle_item = (mask & 1024) ? stub_item : NULL;
}

static void ghost_init(void) {
    /* counters start at arbitrary values (the contracts speak about differences); flags start clear */
    g_stopped = 0; g_stop_code = 0;
    g_self_start = 0; g_self_end = 0; g_self_start_ret = CIF_TRAVERSE_CONTINUE;
    g_item_calls = nondet_unsigned() % 1000; g_packet_calls = nondet_unsigned() % 1000; g_loop_calls = nondet_unsigned() % 1000;
    g_frame_calls = nondet_unsigned() % 1000; g_block_calls = nondet_unsigned() % 1000;
    g_item_sib = nondet_unsigned() % 1000; g_packet_sib = nondet_unsigned() % 1000; g_loop_sib = nondet_unsigned() % 1000;
    g_frame_sib = nondet_unsigned() % 1000; g_block_sib = nondet_unsigned() % 1000;
    g_loops_freed = 0; g_containers_freed = 0; g_itr_closed = 0; g_itr_opened = 0; g_packets_freed = 0;
}

/* ---- walk_item -------------------------------------------------------------------------------------- */
void harness_walk_item(void) {
    cif_handler_tp h; int ctxobj; UChar name[2]; cif_value_tp value;
    make_handler(&h, nondet_unsigned());
    ghost_init();
    g_ctx = &ctxobj; g_self = &value; g_self_name = name; 
    int r = walk_item(name, &value, &h, &ctxobj);
    POST(g_self_start == (h.handle_item != NULL ? 1u : 0u), "C14 item presented exactly once");
    if (h.handle_item) REACH("item-cb"); else REACH("item-nocb");
}

/* ---- walk_packet ---------------------------------------------------------------------------------- */
void harness_walk_packet(void) {
    cif_handler_tp h; int ctxobj; cif_packet_tp packet; struct entry_s ents[MAXK];
    unsigned n = nondet_unsigned();
    __CPROVER_assume(n <= MAXK);
    for (unsigned i = 0; i < MAXK; i++) ents[i].hh.next = (i + 1 < n) ? &ents[i + 1] : NULL;
    packet.map.head = n ? &ents[0] : NULL;
    g_ents = ents; g_nents = n;
    make_handler(&h, nondet_unsigned());
    ghost_init();
    g_ctx = &ctxobj; g_self = &packet;
    unsigned calls0 = g_item_calls, sib0 = g_item_sib;
    int r = walk_packet(&packet, &h, &ctxobj);
    unsigned visited = g_item_calls - calls0;
    POST(g_self_start == (h.handle_packet_start ? 1u : 0u), "C14 packet_start exactly once");
    POST(!g_self_start || g_self_start_snap_a == calls0, "C14 packet_start before any item");
    POST(!g_self_end || g_self_start_at_end == (h.handle_packet_start ? 1u : 0u), "C14 packet_start before packet_end");
    POST(!g_self_end || (g_self_end_snap_a == g_item_calls && g_item_sib == sib0 && visited == n), "C14 packet_end only after every item, none of which cut the packet short");
    POST(visited <= n, "C14 no item presented twice");
    POST((g_item_sib == sib0 && !g_stopped && visited > 0) ==> visited == n, "C14 every item presented when nobody skips");
    POST(visited > 0 ==> g_item_arg == (void *)&ents[visited - 1].as_value, "C14 items presented in chain order, each with its own value (latest visit = slot visited-1, by induction every visit)");
    POST((g_self_start_ret == CIF_TRAVERSE_CONTINUE && visited == n && g_item_sib == sib0 && h.handle_packet_end) ==> g_self_end == 1,
         "C14 packet_end delivered after an undisturbed packet");
    POST(g_self_start_ret != CIF_TRAVERSE_CONTINUE ==> (visited == 0 && g_self_end == 0 && r == g_self_start_ret), "C14 packet_start answer other than CONTINUE suppresses the items");
    if (g_self_end) REACH("packet-end"); if (g_stopped) REACH("stopped"); if (r == CIF_TRAVERSE_SKIP_SIBLINGS) REACH("skip-sib");
}

/* ---- walk_loop ------------------------------------------------------------------------------------ */
void harness_walk_loop(void) {
    cif_handler_tp h; int ctxobj; cif_loop_tp loop;
    make_handler(&h, nondet_unsigned());
    ghost_init();
    g_ctx = &ctxobj; g_self = &loop;
    unsigned calls0 = g_packet_calls, sib0 = g_packet_sib;
    int r = walk_loop(&loop, &h, &ctxobj);
    POST(g_self_start == (h.handle_loop_start ? 1u : 0u), "C14 loop_start exactly once");
    POST(!g_self_start || g_self_start_snap_a == calls0, "C14 loop_start before any packet");
    POST(!g_self_end || g_self_start_at_end == (h.handle_loop_start ? 1u : 0u), "C14 loop_start before loop_end");
    POST(g_self_start_ret != CIF_TRAVERSE_CONTINUE ==> (g_packet_calls == calls0 && g_self_end == 0 && r == g_self_start_ret && g_itr_opened == 0),
         "C14 loop_start answer other than CONTINUE suppresses the packets");
    POST(g_itr_closed == g_itr_opened && g_packets_freed == g_itr_opened, "C14/C16 iterator closed and packet released on every path");
    POST(!g_self_end || (g_self_end_snap_a == g_packet_calls && g_packet_sib == sib0 && g_npackets_left == 0),
         "C14 loop_end only after every packet, none of which cut the loop short");
    POST((g_self_start_ret == CIF_TRAVERSE_CONTINUE && g_itr_opened && g_packet_sib == sib0 && h.handle_loop_end && !g_self_end) ==> g_stopped,
         "C14 loop_end delivered after an undisturbed loop");
    POST((g_packet_sib == sib0 && !g_stopped && g_itr_opened) ==> g_npackets_left == 0, "C14 every packet presented when nobody skips");
    if (g_self_end) REACH("loop-end"); if (g_stopped) REACH("stopped"); if (r == CIF_TRAVERSE_CONTINUE && g_packet_sib != sib0) REACH("packet-skip-sib");
}

/* ---- walk_loops ----------------------------------------------------------------------------------- */
void harness_walk_loops(void) {
    cif_handler_tp h; int ctxobj; cif_container_tp container;
    make_handler(&h, nondet_unsigned());
    ghost_init();
    g_ctx = &ctxobj; g_self = NULL;   /* the (container == g_self) bookkeeping clause belongs to the walk_container job */
    int r = walk_loops(&container, &h, &ctxobj);
    if (g_stopped) REACH("stopped"); if (r == CIF_TRAVERSE_SKIP_SIBLINGS) REACH("skip-sib"); if (NAV_GO(r)) REACH("all-loops");
}

/* ---- walk_container (recursive: child frames are walked through the same contract) ---------------------- */
void harness_walk_container(void) {
    cif_handler_tp h; int ctxobj; cif_container_tp container;
    make_handler(&h, nondet_unsigned());
    ghost_init();
    g_self_loops_walks = 0; g_self_frames_got = 0; g_self_nframes = 0;
    g_ctx = &ctxobj; g_self = &container;
    int depth = nondet_int(); g_wd = nondet_int(); g_depth_limit = nondet_int();
    __CPROVER_assume(depth >= 0 && depth < g_depth_limit && g_depth_limit < 1000000 && g_wd >= 0 && g_wd <= 1000000);
    unsigned f0 = g_frame_calls, l0 = g_loop_calls, fs0 = g_frame_sib;
    int r = walk_container(&container, depth, &h, &ctxobj);
    int has_start = depth ? (h.handle_frame_start != NULL) : (h.handle_block_start != NULL);
    POST(g_self_start == (has_start ? 1u : 0u), "C14 block/frame start exactly once");
    POST(!g_self_start || (g_self_start_snap_a == f0 && g_self_start_snap_b == l0), "C14 container start before any of its frames and loops");
    POST(!g_self_end || g_self_start_at_end == (has_start ? 1u : 0u), "C14 container start before container end");
    POST(g_self_start_ret != CIF_TRAVERSE_CONTINUE ==> (g_frame_calls == f0 && g_loop_calls == l0 && g_self_loops_walks == 0 && g_self_frames_got == 0 && g_self_end == 0 && r == g_self_start_ret),
         "C14 container start answer other than CONTINUE suppresses its content");
    POST(g_self_loops_walks <= 1, "C14 the loops of a container are walked at most once");
    POST((g_self_loops_walks == 1 && depth + 1 == g_wd) ==> g_self_frames_at_loops == g_frame_calls, "C14 a container's save frames come before its loops");
    POST((depth + 1 == g_wd && g_frame_sib == fs0 && g_self_loops_walks == 1) ==> g_frame_calls == f0 + g_self_nframes, "C14 every save frame walked when nobody skips");
    POST((depth + 1 == g_wd && g_frame_sib != fs0 && NAV_SIB(g_frame_last)) ==> g_self_loops_walks == 1, "C14 SKIP_SIBLINGS from a frame does not suppress the loops (loops are not siblings of frames)");
    POST((depth + 1 == g_wd && g_frame_sib != fs0 && IS_STOP(g_frame_last)) ==> g_self_loops_walks == 0, "C14 END / error from a frame suppresses the loops too");
    POST(!g_self_end || (g_self_end_snap_b == g_loop_calls && g_self_loops_walks == 1), "C14 container end after all its frames and loops");
    if (g_self_end) REACH("container-end"); if (g_stopped) REACH("stopped"); if (g_self_loops_walks) REACH("loops-walked"); if (r == CIF_TRAVERSE_SKIP_SIBLINGS) REACH("skip-sib");
}

/* ---- cif_walk ------------------------------------------------------------------------------------------- */
void harness_cif_walk(void) {
    cif_handler_tp h; int ctxobj; int cifobj;
    make_handler(&h, nondet_unsigned());
    ghost_init();
    g_nblocks_got = 0;
    g_ctx = &ctxobj; g_self = &cifobj; g_wd = nondet_int(); g_depth_limit = nondet_int();
    __CPROVER_assume(g_wd >= 0 && g_wd <= 1000000 && g_depth_limit >= 0 && g_depth_limit < 1000000);
    unsigned b0 = g_block_calls, bs0 = g_block_sib;
    int r = cif_walk((cif_tp *)&cifobj, &h, &ctxobj);
    POST(g_stopped == 0 ==> r == CIF_OK, "C14 cif_walk returns CIF_OK for every combination of CONTINUE/SKIP answers");
    POST(g_stopped != 0 ==> r == (g_stop_code == CIF_TRAVERSE_END ? CIF_OK : g_stop_code), "C14 END gives CIF_OK, an error code is returned unchanged");
    POST(g_self_start == (h.handle_cif_start ? 1u : 0u), "C14 cif_start exactly once");
    POST(!g_self_start || g_self_start_snap_a == b0, "C14 cif_start before any block");
    POST(g_self_start_ret != CIF_TRAVERSE_CONTINUE ==> (g_block_calls == b0 && g_self_end == 0), "C14 cif_start answer other than CONTINUE suppresses everything");
    POST(!g_self_end || (g_self_end_snap_a == g_block_calls && g_block_sib == bs0 && g_block_calls == b0 + g_nblocks), "C14 cif_end only after every block, none of which cut the walk short");
    POST((g_self_start_ret == CIF_TRAVERSE_CONTINUE && g_nblocks_got && g_block_sib == bs0 && h.handle_cif_end && !g_self_end) ==> g_stopped, "C14 cif_end delivered after an undisturbed walk");
    if (g_self_end) REACH("cif-end"); if (g_stopped && r != CIF_OK) REACH("error"); if (g_stopped && r == CIF_OK) REACH("end-directive");
}
