/* C03 / C12 bounded harnesses: the scanner functions built around SCAN_UCHAR run on a small buffer with arbitrary content (every 16-bit value per unit),
 * the error callback ending in a monitor; the reports are compared, unit by unit, with the specification of the character rules (contracts/parser_scan.h).
 * Everything is the real code, including get_more_chars (the input ends with the buffer: at_eof is set). */
#include "config.h"
#include <unicode/ustring.h>
#include "cif.h"
#include "internal/utils.h"
#include "common.h"
#include "icu_prims.h"
#include "parser.c"
#ifndef SCN
#define SCN 3            /* units of input */
#endif
#define IS_LEAD(u)  (((u) & 0xFC00u) == 0xD800u)
#define IS_TRAIL(u) (((u) & 0xFC00u) == 0xDC00u)
#define SPEC_BMP_NONCHAR(u) (((u) >= 0xFDD0u && (u) <= 0xFDEFu) || (u) == 0xFFFEu || (u) == 0xFFFFu || (u) == 0xFEFFu)
/* one BMP unit that the CIF version in force does not allow (below CHAR_TABLE_MAX the scanner's configurable class table decides; CIF 1.1: nothing above 0x7E) */
static int spec_unit_disallowed(UChar u, const struct scanner_s *s) {
    if (IS_TRAIL(u)) return 0;
    if (u < CHAR_TABLE_MAX ? s->char_class[u] == NO_CLASS : SPEC_BMP_NONCHAR(u)) return 1;
    return s->cif_version < 2 && u > 0x7E;
}
#define SPEC_PAIR_NONCHAR(hi, lo) ((((lo) & 0xFFFEu) == 0xDFFEu) && (((hi) & 0xFC3Fu) == 0xD83Fu))

struct in_scan { UChar text[SCN]; size_t n; int version; int answers[2 * SCN + 2]; unsigned char cls_lo[4]; };
DECL_IN(in_scan)
static struct scanner_s the_scanner; /* the buffer has BUF_MIN_FILL free units behind the input, so that get_more_chars neither compacts nor grows it (its memmove / memcpy have a symbolic length: cbmc's array theory does not cope) */
#define BUFUNITS (8 + BUF_MIN_FILL)
static UChar the_buf[BUFUNITS]; static UChar orig[SCN];
static struct in_scan g_in;
static unsigned g_calls; static int g_rejected, g_last_answer;
static unsigned char rep_disallowed[SCN], rep_invalid[SCN], rep_pair[SCN], rep_space[SCN];

static int monitor_cb(int code, size_t line, size_t column, const UChar *text, size_t length, void *data) {
#ifdef NO_MON
    return g_in.answers[0];
#endif
    POST(!g_rejected, "C03 no further error callback after one that returned non-zero");
    POST(line >= 1, "C03 error callback gets a line number >= 1");
    POST(text == NULL || (text >= the_buf && text + length <= the_buf + the_scanner.buffer_limit), "C03 error callback text is readable for the stated length");
    if (text != NULL && text >= the_buf && text < the_buf + SCN) {
        size_t i = (size_t)(text - the_buf);
        /* the monitor reads the ORIGINAL input (recovery may already have replaced the unit in the buffer) */
        if (code == CIF_DISALLOWED_CHAR && length == 1) { POST(spec_unit_disallowed(orig[i], &the_scanner), "C12 CIF_DISALLOWED_CHAR only for a character the CIF version in force does not allow"); rep_disallowed[i] = 1; }
        else if (code == CIF_DISALLOWED_CHAR) { POST(length == 2 && i + 1 < SCN && SPEC_PAIR_NONCHAR(orig[i], orig[i + 1]), "C12 two-unit CIF_DISALLOWED_CHAR only for a surrogate pair encoding a noncharacter"); rep_pair[i] = 1; }
        else if (code == CIF_INVALID_CHAR) { POST(length == 1 && (IS_LEAD(orig[i]) || IS_TRAIL(orig[i])), "C12 CIF_INVALID_CHAR only for a surrogate"); rep_invalid[i] = 1; }
        else if (code == CIF_MISSING_SPACE) rep_space[i] = 1;
    }
    int a = g_calls < 2 * SCN + 2 ? g_in.answers[g_calls] : 0;
    g_calls++; g_last_answer = a; if (a != 0) g_rejected = 1;
    return a;
}
static struct scanner_s *setup(const struct in_scan *inp) {
    struct scanner_s *s = &the_scanner;
    g_in = *inp;
    PRE(g_in.n <= SCN && (g_in.version == 1 || g_in.version == 2));
    INIT_V2_SCANNER(s, (const char *)NULL, (const char *)NULL); s->cif_version = 2;
    if (g_in.version == 1) { SET_V1(s); s->cif_version = 1; }
    for (size_t i = 0; i < SCN; i++) { orig[i] = g_in.text[i]; the_buf[i] = g_in.text[i]; rep_disallowed[i] = rep_invalid[i] = rep_pair[i] = rep_space[i] = 0; }
    s->buffer = the_buf; s->buffer_size = BUFUNITS; s->buffer_limit = 0; s->text_start = the_buf; s->tvalue_start = the_buf; s->next_char = the_buf;
    s->at_eof = 1; s->read_func = NULL; s->error_callback = monitor_cb; s->whitespace_callback = NULL; s->user_data = NULL; s->line = 1; s->column = 0;
    g_calls = 0; g_rejected = 0; g_last_answer = 0;
    return s;
}
/* one call per input length, so that the buffer limit is a constant on each path (cbmc then folds get_more_chars' buffer-management branches away) */
#ifdef ONLYLEN
#define CALL_PER_LENGTH(s, r, f) do { (s)->buffer_limit = ONLYLEN; r = f(s); } while (0)
#else
#define CASE_LEN(k, s, r, f) case k: (s)->buffer_limit = k; r = f(s); break;
#if SCN == 1
#define CASES(s, r, f) CASE_LEN(1, s, r, f)
#elif SCN == 2
#define CASES(s, r, f) CASE_LEN(1, s, r, f) CASE_LEN(2, s, r, f)
#elif SCN == 3
#define CASES(s, r, f) CASE_LEN(1, s, r, f) CASE_LEN(2, s, r, f) CASE_LEN(3, s, r, f)
#elif SCN == 4
#define CASES(s, r, f) CASE_LEN(1, s, r, f) CASE_LEN(2, s, r, f) CASE_LEN(3, s, r, f) CASE_LEN(4, s, r, f)
#elif SCN == 5
#define CASES(s, r, f) CASE_LEN(1, s, r, f) CASE_LEN(2, s, r, f) CASE_LEN(3, s, r, f) CASE_LEN(4, s, r, f) CASE_LEN(5, s, r, f)
#else
#define CASES(s, r, f) CASE_LEN(1, s, r, f) CASE_LEN(2, s, r, f) CASE_LEN(3, s, r, f) CASE_LEN(4, s, r, f) CASE_LEN(5, s, r, f) CASE_LEN(6, s, r, f)
#endif
#define CALL_PER_LENGTH(s, r, f) do { switch (g_in.n) { CASES(s, r, f) default: (s)->buffer_limit = 0; r = f(s); break; } } while (0)
#endif
/* after an all-accepting run: every consumed unit that is disallowed was reported, every unpaired surrogate among the consumed units was reported and replaced */
static void check_consumed(const struct scanner_s *s, int r) {
#ifdef NO_CHECK
    return;
#endif
    POST(r == CIF_OK || (g_rejected && r == g_last_answer), "C03 the scanner returns CIF_OK or the first non-zero answer of the error callback");
    POST(s->next_char >= the_buf && s->next_char <= the_buf + s->buffer_limit && s->buffer_limit <= SCN, "C03 scan position stays inside the buffered input");
    if (r != CIF_OK || g_rejected) return;
    size_t end = (size_t)(s->next_char - the_buf);
    for (size_t i = 0; i < SCN; i++) if (i < end) {
        int lead_before = i > 0 && IS_LEAD(orig[i - 1]);
        POST(!spec_unit_disallowed(orig[i], s) || rep_disallowed[i], "C12 a disallowed character among the consumed units was reported as CIF_DISALLOWED_CHAR");
        if (IS_TRAIL(orig[i])) {
            POST(lead_before || (rep_invalid[i] && the_buf[i] == (s->cif_version >= 2 ? REPL_CHAR : REPL1_CHAR)), "C12 an unpaired trail surrogate is reported as CIF_INVALID_CHAR and replaced");
            POST(!(lead_before && SPEC_PAIR_NONCHAR(orig[i - 1], orig[i])) || rep_pair[i - 1], "C12 a surrogate pair encoding a noncharacter is reported as CIF_DISALLOWED_CHAR");
        }
        if (IS_LEAD(orig[i]) && (i + 1 < end || end == s->buffer_limit))
            POST((i + 1 < end && IS_TRAIL(orig[i + 1])) || rep_invalid[i], "C12 an unpaired lead surrogate is reported as CIF_INVALID_CHAR");
    }
    if (g_calls) REACH("recovered"); else REACH("clean");
}
void harness_scan_to_eol_b(void) {
    struct in_scan in = GET_IN(in_scan);
    struct scanner_s *s = setup(&in);
#ifdef NO_SCAN
    int r = 0;
#else
    int r; CALL_PER_LENGTH(s, r, scan_to_eol);
#endif
    check_consumed(s, r);
    if (r == CIF_OK && !g_rejected) {
        POST(s->tvalue_length == (size_t)(s->next_char - s->tvalue_start), "C12 token length = consumed units");
        POST(s->next_char == the_buf + s->buffer_limit || CLASS_OF(*s->next_char, s) == EOL_CLASS, "C12 a comment ends at the end of the line or of the input");
    }
    if (g_rejected) REACH("rejected-eol");
}
void harness_scan_to_ws_b(void) {
    struct in_scan in = GET_IN(in_scan);
    struct scanner_s *s = setup(&in);
    int r; CALL_PER_LENGTH(s, r, scan_to_ws);
    check_consumed(s, r);
    if (r == CIF_OK && !g_rejected)
        POST(s->next_char == the_buf + s->buffer_limit || METACLASS_OF(*s->next_char, s) == WS_META, "C12 the token ends at whitespace or at the end of the input");
    if (g_rejected) REACH("rejected-ws");
}
void harness_scan_unquoted_b(void) {
    struct in_scan in = GET_IN(in_scan);
    struct scanner_s *s = setup(&in);
    int r; CALL_PER_LENGTH(s, r, scan_unquoted);
    check_consumed(s, r);
    if (g_rejected) REACH("rejected-unq");
}

/* ---- scan_unquoted: brackets inside / outside a data block or save frame header (C12 "missing whitespace") --------------------------------------
 * Seven units: five drawn from the letters of data_ / save_ in either case or 'x', then two drawn from brackets, a letter and a blank.  Specification
 * (CIF 2.0: data_ and save_ headers may contain any non-blank characters; elsewhere an opening bracket after an unquoted value means that the
 * separating whitespace is missing): at the first opening bracket at offset k - all units before it being ordinary characters - CIF_MISSING_SPACE is
 * reported iff the token is not a header, i.e. unless k >= 5 and the first five units spell data_ or save_ case-insensitively. */
#if SCN >= 7
struct in_hdr { unsigned char sel[7]; int answer; };
DECL_IN(in_hdr)
void harness_scan_unquoted_header(void) {
    struct in_hdr in = GET_IN(in_hdr);
    static const UChar head[5][5] = { { 'd', 'D', 's', 'S', 'x' }, { 'a', 'A', 'a', 'A', 'x' }, { 't', 'T', 'v', 'V', 'x' }, { 'a', 'A', 'e', 'E', 'x' }, { '_', '_', '_', '_', 'x' } };
    static const UChar tail[6] = { '[', '{', ']', '}', 'q', ' ' };
    struct in_scan none; memset(&none, 0, sizeof none); none.n = 0; none.version = 2;
    struct scanner_s *s = setup(&none);
    for (int i = 0; i < 5; i++) { PRE(in.sel[i] < 5); the_buf[i] = orig[i] = head[i][in.sel[i]]; }
    for (int i = 5; i < 7; i++) { PRE(in.sel[i] < 6); the_buf[i] = orig[i] = tail[in.sel[i]]; }
    g_in.answers[0] = in.answer; s->buffer_limit = 7;
    static const UChar kw_data[5] = { 'd', 'a', 't', 'a', '_' }, kw_save[5] = { 's', 'a', 'v', 'e', '_' };
    int is_data = 1, is_save = 1;
    for (int i = 0; i < 5; i++) { UChar lc = (orig[i] >= 'A' && orig[i] <= 'Z') ? orig[i] + 32 : orig[i]; is_data = is_data && lc == kw_data[i]; is_save = is_save && lc == kw_save[i]; }
    int r = scan_unquoted(s);
    int k = in.sel[5] < 2 ? 5 : ((in.sel[5] == 4 && in.sel[6] < 2) ? 6 : -1);    /* offset of the first opening bracket, all units before it ordinary */
    if (k >= 0) {
        int header = is_data || is_save;
        POST(rep_space[k] == !header, "C12 an opening bracket directly after an unquoted value is reported as CIF_MISSING_SPACE unless the token is a data_ / save_ header");
        if (!header && r == CIF_OK) POST(s->next_char == the_buf + k, "C12 recovery: the value ends before the bracket, which starts the next token");
        if (header && r == CIF_OK) POST(s->next_char > the_buf + k, "C12 a bracket is part of a block or frame code");
        if (header) REACH("bracket-in-header"); else REACH("missing-space");
    } else POST(g_calls == 0 || rep_space[6], "C12 no report for a token without a misplaced bracket");
}
#endif
