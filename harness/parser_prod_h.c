/* C15 harness: parse_container() with every callback of the parser ending in a stub that asserts the C15 silence rule. */
#include "parser_prod.h"
#include "parser.c"
int nondet_int(void);
#define SILENT(what) __CPROVER_assert(g_scanner->skip_depth <= 0, "C15 no " what " callback for an entity bypassed by SKIP_CURRENT / SKIP_SIBLINGS")
static int h_block_start(cif_container_tp *c, void *d) { SILENT("block_start"); return nondet_int(); }
static int h_block_end(cif_container_tp *c, void *d)   { SILENT("block_end"); return nondet_int(); }
static int h_frame_start(cif_container_tp *c, void *d) { SILENT("frame_start"); return nondet_int(); }
static int h_frame_end(cif_container_tp *c, void *d)   { SILENT("frame_end"); return nondet_int(); }
static void s_keyword(size_t line, size_t col, const UChar *t, size_t len, void *d)  { SILENT("loop_ keyword"); }
static void s_dataname(size_t line, size_t col, const UChar *t, size_t len, void *d) { SILENT("data name"); }
static void s_whitespace(size_t line, size_t col, const UChar *t, size_t len, void *d) { }
static int e_callback(int code, size_t line, size_t column, const UChar *text, size_t length, void *data) {
    __CPROVER_assert(line >= 1, "C03 error callback gets a line number >= 1");
    return nondet_int();
}
void harness_parse_container(void) {
    struct scanner_s *s = malloc(sizeof *s); __CPROVER_assume(s != NULL);
    cif_handler_tp h; unsigned mask = (unsigned)nondet_int();
    memset(&h, 0, sizeof h);
    h.handle_block_start = (mask & 1) ? h_block_start : NULL; h.handle_block_end = (mask & 2) ? h_block_end : NULL;
    h.handle_frame_start = (mask & 4) ? h_frame_start : NULL; h.handle_frame_end = (mask & 8) ? h_frame_end : NULL;
    s->handler = &h; s->error_callback = e_callback;
    s->keyword_callback = (mask & 16) ? s_keyword : NULL; s->dataname_callback = (mask & 32) ? s_dataname : NULL; s->whitespace_callback = (mask & 64) ? s_whitespace : NULL;
    s->user_data = NULL; s->max_frame_depth = nondet_int(); s->line = 1; s->column = 0;
    s->skip_depth = nondet_int(); __CPROVER_assume(s->skip_depth >= 0 && s->skip_depth < 999995);
    s->tvalue_start = g_tokbuf; s->text_start = g_tokbuf; s->next_char = g_tokbuf; s->tvalue_length = 0; s->ttype = END;
    g_scanner = s; g_store_calls = 0;
    int cobj; int with_target = nondet_int(), is_block = nondet_int() ? 1 : 0;
    int d0 = s->skip_depth;
    int r = parse_container(s, with_target ? (cif_container_tp *)&cobj : NULL, is_block);
    POST(d0 <= 0 || s->skip_depth == d0, "C15 skip depth restored by a production entered while skipping");
    POST(d0 > 0 || s->skip_depth == 0 || s->skip_depth == 1, "C15 skip depth 0 or the sibling hand-off 1 after a production entered at depth 0");
    POST(d0 <= 0 || g_store_calls == 0, "C15 nothing stored for a bypassed container");
    POST(with_target || g_store_calls == 0, "C15 syntax-only mode stores nothing");
    if (d0 > 0) REACH("entered-skipping"); if (d0 == 0 && s->skip_depth == 1) REACH("sibling-handoff"); if (g_store_calls) REACH("stored");
}

/* ---- parse_item ------------------------------------------------------------------------------------------------------------- */
static int h_item(UChar *name, cif_value_tp *value, void *d) {
    SILENT("item");
    __CPROVER_assert(name != NULL && value != NULL, "C15 item callback gets the data name and the parsed value");
    g_item_cb_calls += 1; g_item_cb_answer = nondet_int();
    return g_item_cb_answer;
}
void harness_parse_item(void) {
    struct scanner_s *s = malloc(sizeof *s); __CPROVER_assume(s != NULL);
    cif_handler_tp h; unsigned mask = (unsigned)nondet_int();
    memset(&h, 0, sizeof h);
    h.handle_item = (mask & 1) ? h_item : NULL;
    s->handler = &h; s->error_callback = e_callback; s->whitespace_callback = (mask & 64) ? s_whitespace : NULL;
    s->keyword_callback = NULL; s->dataname_callback = NULL;
    s->user_data = NULL; s->line = 1; s->column = 0;
    s->skip_depth = nondet_int(); __CPROVER_assume(s->skip_depth >= 0 && s->skip_depth < 999999);
    s->tvalue_start = g_tokbuf; s->text_start = g_tokbuf; s->next_char = g_tokbuf; s->tvalue_length = 0; s->ttype = END;
    g_scanner = s; g_store_calls = 0; g_item_cb_calls = 0; g_item_cb_answer = CIF_TRAVERSE_CONTINUE; g_value_frees = 0;
    int cobj; UChar nm[2] = { '_', 0 };
    int with_target = nondet_int(), with_name = nondet_int();
    __CPROVER_assume(!with_name || s->skip_depth == 0);
    int d0 = s->skip_depth;
    int r = parse_item(s, with_target ? (cif_container_tp *)&cobj : NULL, with_name ? nm : NULL);
    POST(d0 <= 0 || (s->skip_depth == d0 && g_item_cb_calls == 0 && g_store_calls == 0), "C15 an item inside a skip is neither reported nor stored, skip depth restored");
    POST(g_item_cb_calls <= 1 && g_store_calls <= g_item_cb_calls + (h.handle_item == NULL ? 1u : 0u), "C15 at most one item callback, at most one store");
    POST(g_store_calls == 0 || (with_target && with_name && (h.handle_item == NULL || g_item_cb_answer == CIF_TRAVERSE_CONTINUE)), "C15 a value is stored only for a named item whose handler answered CONTINUE");
    POST(d0 > 0 || s->skip_depth == 0 || (s->skip_depth == 1 && g_item_cb_calls == 1 && g_item_cb_answer == CIF_TRAVERSE_SKIP_SIBLINGS), "C15 SKIP_SIBLINGS from an item is handed to the caller as skip depth 1");
    if (g_store_calls) REACH("item-stored"); if (d0 > 0) REACH("item-skipped"); if (d0 == 0 && s->skip_depth == 1) REACH("item-skip-siblings");
}

/* ---- parse_loop_packets ---------------------------------------------------------------------------------------------------- */
static int h_packet_start(cif_packet_tp *p, void *d) { SILENT("packet_start"); return nondet_int(); }
static int h_packet_end(cif_packet_tp *p, void *d)   { SILENT("packet_end"); return nondet_int(); }
void harness_parse_loop_packets(void) {
    struct scanner_s *s = malloc(sizeof *s); __CPROVER_assume(s != NULL);
    cif_handler_tp h; unsigned mask = (unsigned)nondet_int();
    memset(&h, 0, sizeof h);
    h.handle_item = (mask & 1) ? h_item : NULL; h.handle_packet_start = (mask & 2) ? h_packet_start : NULL; h.handle_packet_end = (mask & 4) ? h_packet_end : NULL;
    s->handler = &h; s->error_callback = e_callback; s->whitespace_callback = (mask & 64) ? s_whitespace : NULL;
    s->keyword_callback = NULL; s->dataname_callback = NULL; s->user_data = NULL; s->line = 1; s->column = 0;
    s->skip_depth = nondet_int(); __CPROVER_assume(s->skip_depth >= 0 && s->skip_depth < 999990);
    s->tvalue_start = g_tokbuf; s->text_start = g_tokbuf; s->next_char = g_tokbuf; s->tvalue_length = 0; s->ttype = END;
    g_scanner = s; g_packet_adds = 0; g_item_cb_calls = 0; g_item_cb_answer = 0; g_value_frees = 0;
    int ncol = nondet_int(); __CPROVER_assume(ncol >= 1 && ncol <= MAXCOL);
    static UChar n0[2] = { '_', 0 }, n1[2] = { '_', 0 };
    string_element_tp *nodes = malloc(MAXCOL * sizeof(string_element_tp)); __CPROVER_assume(nodes != NULL);
    nodes[0].string = nondet_int() ? n0 : NULL; nodes[0].next = ncol > 1 ? &nodes[1] : NULL;
    nodes[1].string = nondet_int() ? n1 : NULL; nodes[1].next = NULL;
    g_names = nodes;
    UChar **names = malloc((MAXCOL + 1) * sizeof(UChar *)); __CPROVER_assume(names != NULL);
    names[0] = nodes[0].string ? nodes[0].string : (ncol > 1 ? nodes[1].string : NULL); names[1] = (nodes[0].string && ncol > 1) ? nodes[1].string : NULL; names[2] = NULL;
    int lobj; int with_loop = nondet_int();
    int d0 = s->skip_depth;
    int r = parse_loop_packets(s, with_loop ? (cif_loop_tp *)&lobj : NULL, nodes, names, ncol);
    POST(r != CIF_OK || d0 <= 0 || (s->skip_depth == d0 && g_packet_adds == 0), "C15 a loop body inside a skip stores no packet and restores the skip depth");
    POST(r != CIF_OK || d0 > 0 || s->skip_depth == 0 || s->skip_depth == 1, "C15 skip depth 0 or the hand-off 1 after a loop body entered at depth 0");
    POST(with_loop || g_packet_adds == 0, "C15 syntax-only mode stores no packet");
    if (g_packet_adds) REACH("packet-stored"); if (d0 > 0 && r == CIF_OK) REACH("body-skipped"); if (g_item_cb_calls) REACH("item-reported");
}
