/* C15 harness: parse_container() with every callback of the parser ending in a stub that asserts the C15 silence rule. */
#include "parser_prod.h"
#include "parser.c"
int nondet_int(void);
#define SILENT(what) __CPROVER_assert(g_scanner->skip_depth <= 0, "C15 no " what " callback for an entity bypassed by SKIP_CURRENT / SKIP_SIBLINGS")
static int h_block_start(cif_container_tp *c, void *d) { SILENT("block_start"); return nondet_int(); }
static int h_block_end(cif_container_tp *c, void *d)   { SILENT("block_end"); return nondet_int(); }
static int h_frame_start(cif_container_tp *c, void *d) { SILENT("frame_start"); return nondet_int(); }
static int h_frame_end(cif_container_tp *c, void *d)   { SILENT("frame_end"); return nondet_int(); }
static void s_keyword(size_t line, size_t col, const UChar *t, size_t len, void *d)  { SILENT("loop_ keyword"); }
static void s_dataname(size_t line, size_t col, const UChar *t, size_t len, void *d) { SILENT("data name"); }
static void s_whitespace(size_t line, size_t col, const UChar *t, size_t len, void *d) { }
static int e_callback(int code, size_t line, size_t column, const UChar *text, size_t length, void *data) {
    __CPROVER_assert(line >= 1, "C03 error callback gets a line number >= 1");
    return nondet_int();
}
void harness_parse_container(void) {
    struct scanner_s *s = malloc(sizeof *s); __CPROVER_assume(s != NULL);
    cif_handler_tp h; unsigned mask = (unsigned)nondet_int();
    memset(&h, 0, sizeof h);
    h.handle_block_start = (mask & 1) ? h_block_start : NULL; h.handle_block_end = (mask & 2) ? h_block_end : NULL;
    h.handle_frame_start = (mask & 4) ? h_frame_start : NULL; h.handle_frame_end = (mask & 8) ? h_frame_end : NULL;
    s->handler = &h; s->error_callback = e_callback;
    s->keyword_callback = (mask & 16) ? s_keyword : NULL; s->dataname_callback = (mask & 32) ? s_dataname : NULL; s->whitespace_callback = (mask & 64) ? s_whitespace : NULL;
    s->user_data = NULL; s->max_frame_depth = nondet_int(); s->line = 1; s->column = 0;
    s->skip_depth = nondet_int(); __CPROVER_assume(s->skip_depth >= 0 && s->skip_depth < 999995);
    s->tvalue_start = g_tokbuf; s->text_start = g_tokbuf; s->next_char = g_tokbuf; s->tvalue_length = 0; s->ttype = END;
    g_scanner = s; g_store_calls = 0;
    int cobj; int with_target = nondet_int(), is_block = nondet_int() ? 1 : 0;
    int d0 = s->skip_depth;
    int r = parse_container(s, with_target ? (cif_container_tp *)&cobj : NULL, is_block);
    POST(d0 <= 0 || s->skip_depth == d0, "C15 skip depth restored by a production entered while skipping");
    POST(d0 > 0 || s->skip_depth == 0 || s->skip_depth == 1, "C15 skip depth 0 or the sibling hand-off 1 after a production entered at depth 0");
    POST(d0 <= 0 || g_store_calls == 0, "C15 nothing stored for a bypassed container");
    POST(with_target || g_store_calls == 0, "C15 syntax-only mode stores nothing");
    if (d0 > 0) REACH("entered-skipping"); if (d0 == 0 && s->skip_depth == 1) REACH("sibling-handoff"); if (g_store_calls) REACH("stored");
}
