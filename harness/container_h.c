/* C05 harnesses: mutators of container.c over the SQLite transaction model. */
#include "container.h"
#include "container.c"

/* the message SQLite reports for the failed statement: the one the library looks for, or something else */
const char *sqlite3_errmsg(sqlite3 *db) { return nondet_int() ? scalar_errmsg : "x"; }
/* libc strcmp, loop-free for the one call in this file (both arguments are one of the two strings above): the same pointer compares equal, different first
 * characters decide, anything else is left open */
int strcmp(const char *a, const char *b) { if (a == b) return 0; if (a[0] != b[0]) return a[0] < b[0] ? -1 : 1; return nondet_int(); }

static cif_tp the_cif; static cif_container_tp the_container;
unsigned nondet_unsigned(void); size_t nondet_size(void);
static void sql_state(void) {
    g_stmt_pool[0].is_write = 0; g_stmt_pool[1].is_write = 1;
    g_tx_open = nondet_int() ? 1 : 0; g_tx_by_sp = 0; g_sp_depth = nondet_int(); g_undo_failed = 0;
    g_tx_writes = nondet_unsigned(); g_durable_writes = nondet_unsigned(); g_lost_writes = nondet_unsigned();
    g_sp_mark[0] = nondet_unsigned(); g_sp_mark[1] = nondet_unsigned(); g_sp_mark[2] = nondet_unsigned(); g_sp_mark[3] = nondet_unsigned();
    g_commits = g_rollbacks = g_begins = g_saves = g_releases = g_rollback_tos = g_write_steps = g_finalized = 0;
    __CPROVER_assume(SQL_ENTRY);
    g0_open = g_tx_open; g0_depth = g_sp_depth; g0_tx_writes = g_tx_writes; g0_steps = g_write_steps; g0_lost = g_lost_writes; g0_durable = g_durable_writes;
    g0_mark0 = g_sp_mark[0]; g0_mark1 = g_sp_mark[1];
}
static sqlite3_stmt *some_stmt(void) { return nondet_int() ? &g_stmt_pool[1] : NULL; }
static UChar a_name[2];
void harness_create_loop_internal(void) {
    cif_tp *cif = &the_cif;
    cif->db = (sqlite3 *)&g_n;   /* an opaque non-NULL handle */
    cif->create_loop_stmt = some_stmt(); cif->add_loop_item_stmt = some_stmt();
    cif->get_loopnum_stmt = nondet_int() ? &g_stmt_pool[0] : NULL;
    the_container.cif = cif; the_container.id = 1;
    sql_state();
    UChar **names = malloc((MAXNM + 1) * sizeof(UChar *)); UChar **norm = malloc((MAXNM + 1) * sizeof(UChar *)); __CPROVER_assume(names != NULL && norm != NULL);
    g_n = nondet_size(); __CPROVER_assume(g_n <= MAXNM);
    names[0] = g_n > 0 ? a_name : NULL; names[1] = g_n > 1 ? a_name : NULL; names[2] = g_n > 2 ? a_name : NULL; names[3] = NULL;
    norm[0] = names[0]; norm[1] = names[1]; norm[2] = names[2]; norm[3] = NULL;
    cif_loop_tp *out = NULL; cif_loop_tp **outp = nondet_int() ? &out : NULL;
    unsigned lost0 = g_lost_writes, dur0 = g_durable_writes, txw0 = g_tx_writes; int open0 = g_tx_open;
    int r = cif_container_create_loop_internal(&the_container, nondet_int() ? a_name : NULL, names, norm, outp);
    POST(r == CIF_OK || g_undo_failed || (g_tx_open == open0 && g_tx_writes == txw0 && g_durable_writes == dur0 && g_lost_writes - lost0 == g_write_steps),
         "C05 a failed loop creation leaves nothing behind: every write it made is undone, nothing else is, the enclosing transaction stays open");
    POST(r == CIF_OK || out == NULL, "C05 a failed loop creation hands out no handle");
    if (r == CIF_OK && open0) REACH("created-nested"); if (r == CIF_OK && !open0) REACH("created-top");
    if (r == CIF_DUP_ITEMNAME && open0 && g_write_steps > 1) REACH("dup-name-nested-after-writes"); if (r == CIF_RESERVED_LOOP) REACH("reserved"); if (r == CIF_INVALID_HANDLE) REACH("invalid-handle");
    if (r == CIF_MEMORY_ERROR) REACH("oom");
}

void harness_set_value(void) {
    cif_tp *cif = &the_cif; cif->db = (sqlite3 *)&g_n; the_container.cif = cif; the_container.id = 1;
    sql_state();
    cif_value_tp *val = nondet_int() ? malloc(sizeof *val) : NULL;
    unsigned lost0 = g_lost_writes, dur0 = g_durable_writes; int open0 = g_tx_open;
    int r = cif_container_set_value(&the_container, a_name, val);
    POST(r == CIF_OK || g_undo_failed || (g_tx_open == open0 && g_durable_writes == dur0 && g_lost_writes - lost0 == g_write_steps), "C05 a failed set_value leaves the database as it was");
    if (r == CIF_OK) REACH("set"); if (r != CIF_OK && g_write_steps > 0 && !g_undo_failed) REACH("failed-after-writes"); if (open0) REACH("refused-inside-transaction");
}
