"""C11 - CIF version and character encoding are selected exactly as documented."""
import vlib
from vlib import Job

LEVEL = ('cif_parse() is loop-free (two memcmp of constant length): its contract - the documented decision table, written from cif.h as a pure '
         'expression of prefer_cif2, force_default_encoding and the stream prefix - is proved by CBMC for ALL option values and ALL '
         'first 16 bytes / stream lengths: a complete proof, no bound.')
UNDECIDED = ['that ICU recognises exactly the byte-order marks assumed in contracts/ciffile_parse.h and decodes every encoding to the same text',
             'second stage inside cif_parse_internal (version comment of the decoded text, BOM position, CIF_WRONG_ENCODING report): separate job']
ICU = 'assumed contracts for fread/ferror, ucnv_detectUnicodeSignature (exactly the UTF-8/16/32 BOMs), ucnv_open/getName/setToUCallBack/close, cif_create, cif_parse_internal (records its arguments)'


def jobs():
    R = ['fread', 'ferror', 'ucnv_detectUnicodeSignature_72', 'ucnv_open_72', 'ucnv_getName_72', 'ucnv_setToUCallBack_72', 'ucnv_close_72',
         'cif_create', 'cif_parse_internal']
    return [
        Job('cif_parse_stage1', 'ciffile_parse_h.c', entry='harness_cif_parse', enforce='cif_parse', replace=R, tus=['ciffile.c'],
            reach=['v2', 'v1', 'v-by-comment', 'v-by-comment-default2', 'no-parse'], min_obligations=20, trusted=[ICU], timeout=900, mem_gb=16, add_library=True,
            clauses=['version code = documented table of (prefer_cif2, force_default_encoding, BOM, version comment)',
                     'encoding = signature / UTF-8 for CIF 2.0 / named or system default, force_default_encoding overrides',
                     'not_utf8 flag truthful', 'modifiers clamped']),
    ]


def check(tier):
    return vlib.run_property('C11', jobs(), tier, LEVEL, UNDECIDED)
