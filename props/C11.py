"""C11 - CIF version and character encoding are selected exactly as documented."""
import vlib
from vlib import Job

LEVEL = ('cif_parse() is loop-free (two memcmp of constant length): its contract - the documented decision table, written from cif.h as a pure '
         'expression of prefer_cif2, force_default_encoding and the stream prefix - is proved by CBMC for ALL option values and ALL '
         'first 16 bytes / stream lengths: a complete proof, no bound.')
UNDECIDED = ['that ICU recognises exactly the byte-order marks assumed in contracts/ciffile_parse.h and decodes every encoding to the same text',
             'a BOM later in the stream (handled by the scanner proper, not under contract)']
ICU = 'assumed contracts for fread/ferror, ucnv_detectUnicodeSignature (exactly the UTF-8/16/32 BOMs), ucnv_open/getName/setToUCallBack/close, cif_create, cif_parse_internal (records its arguments)'


def jobs():
    R = ['fread', 'ferror', 'ucnv_detectUnicodeSignature_72', 'ucnv_open_72', 'ucnv_getName_72', 'ucnv_setToUCallBack_72', 'ucnv_close_72',
         'cif_create', 'cif_parse_internal']
    return [
        Job('cif_parse_stage1', 'ciffile_parse_h.c', entry='harness_cif_parse', enforce='cif_parse', replace=R, tus=['ciffile.c'],
            reach=['v2', 'v1', 'v-by-comment', 'v-by-comment-default2', 'no-parse'], min_obligations=20, trusted=[ICU], timeout=900, mem_gb=16, add_library=True, replay=False,
            clauses=['version code = documented table of (prefer_cif2, force_default_encoding, BOM, version comment)',
                     'encoding = signature / UTF-8 for CIF 2.0 / named or system default, force_default_encoding overrides',
                     'not_utf8 flag truthful', 'modifiers clamped']),
        Job('cif_parse_internal_stage2', 'parser_init_h.c', entry='harness_parse_internal', enforce='cif_parse_internal', tus=['parser.c'],
            replace=['get_first_char', 'get_more_chars', 'scan_to_ws', 'u_strncmp_72', 'parse_cif'], unwind=170, text_ui=True,
            flags=['--malloc-may-fail', '--malloc-fail-null'],
            note='--unwind 170 with unwinding assertions: every loop of INIT_V2_SCANNER has a constant bound (<= 160) or walks an option string of at most 2 characters',
            reach=['as-cif2', 'as-cif1', 'wrong-encoding', 'bom-in-cif1'], min_obligations=50, timeout=1800, mem_gb=32, replay=False,
            trusted=['assumed contracts of get_first_char / get_more_chars / scan_to_ws / u_strncmp / parse_cif (contracts/parser_init.h): they deliver the ghost-chosen first characters and token'],
            clauses=['final version = f(initial version code, version comment of the decoded text)', 'CIF 1.1 table switched in exactly for version 1',
                     'CIF_WRONG_ENCODING reported before parsing iff CIF 2.0 and not UTF-8 (any non-zero flag)', 'BOM only as first character; DISALLOWED_CHAR under CIF 1.1',
                     'extra_ws / extra_eol option strings: no out-of-bounds table write for any byte value']),
    ]


def check(tier):
    return vlib.run_property('C11', jobs(), tier, LEVEL, UNDECIDED)
