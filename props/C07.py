"""C07 - values stored in a CIF are read back identical."""
import vlib
from vlib import Job

LEVEL = ('Contracts on the serialisation buffers of value.c (the byte stream that carries every stored value into and out of SQLite): '
         'cif_buf_write appends exactly the source bytes, preserves what was written before, terminates (decreases clause on the growth '
         'loop) and fails cleanly; cif_buf_read delivers exactly the stored bytes.')
UNDECIDED = ['SET_VALUE_PROPS / GET_VALUE_PROPS column mapping and UTF-16/UTF-8 transcoding inside SQLite',
             'serialise/deserialise round trip of lists and tables (recursion + uthash)', 'texts longer than the bound of the round-trip jobs']


def jobs():
    T = ['value.c']
    return [
        Job('buf_write', 'value_h.c', entry='harness_buf_write', enforce='cif_buf_write', tus=T, defines={'MAXB': 24, 'MAXL': 6}, thorough_defines={'MAXB': 48},
            loops=1, reach=['written', 'grown', 'failed'], min_obligations=20, timeout=1200, mem_gb=16, flags=['--malloc-may-fail', '--malloc-fail-null'],
            clauses=['appended bytes == source', 'earlier bytes preserved across growth', 'growth loop terminates', 'failure leaves the buffer unchanged',
                     'no size_t overflow']),
        Job('buf_read', 'value_h.c', entry='harness_buf_read', enforce='cif_buf_read', tus=T, defines={'MAXB': 24, 'MAXL': 6}, thorough_defines={'MAXB': 64},
            reach=['read', 'nothing'], min_obligations=20, timeout=600,
            clauses=['returns min(available, max)', 'delivered bytes == stored bytes', 'position advanced by the count']),
        Job('roundtrip_char', 'value_h.c', entry='harness_roundtrip_char', tus=T, functions=['cif_value_serialize', 'cif_value_deserialize', 'cif_buf_create'], plain=True, no_loop_contracts=True,
            defines={'RTN': 3, 'MAXL': 6, 'MAXT': 8, 'MAXW': 6}, thorough_defines={'RTN': 6}, unwind=16, text_ui=True,
            bounded='CHAR values with a text of exactly RTN (3 quick / 6 thorough) arbitrary code units, both quoted states, plus the unknown and not-applicable values; loops unwound completely',
            reach=['char-roundtrip', 'unk-na-roundtrip'], min_obligations=30, timeout=1200, mem_gb=16,
            clauses=['deserialise(serialise(v)) has the kind, text and quoted status of v', 'the read-back text lives in storage of its own']),
        Job('roundtrip_numb', 'value_h.c', entry='harness_roundtrip_numb', tus=T, functions=['cif_value_serialize', 'cif_value_deserialize', 'cif_value_parse_numb'], plain=True, no_loop_contracts=True,
            defines={'RTN': 3, 'MAXL': 6, 'MAXT': 8, 'MAXW': 6}, unwind=16, text_ui=True,
            bounded='one concrete number text (-1.50e2(3)) with either quoted state: the lemma is about the wire format and the order of the deserialisation steps',
            reach=['numb-roundtrip'], min_obligations=30, timeout=1200, mem_gb=16,
            clauses=['a number is read back with its quoted status (the flag is read after the number text is parsed)', 'text, sign, digits, su digits and scale identical']),
    ]


def check(tier):
    return vlib.run_property('C07', jobs(), tier, LEVEL, UNDECIDED)
