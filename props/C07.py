"""C07 - values stored in a CIF are read back identical."""
import vlib
from vlib import Job

LEVEL = ('Contracts on the serialisation buffers of value.c (the byte stream that carries every stored value into and out of SQLite): '
         'cif_buf_write appends exactly the source bytes, preserves what was written before, terminates (decreases clause on the growth '
         'loop) and fails cleanly; cif_buf_read delivers exactly the stored bytes.')
UNDECIDED = ['SET_VALUE_PROPS / GET_VALUE_PROPS column mapping and UTF-16/UTF-8 transcoding inside SQLite',
             'serialise/deserialise round trip of whole values (lists, tables): not yet under contract in this round']


def jobs():
    T = ['value.c']
    return [
        Job('buf_write', 'value_h.c', entry='harness_buf_write', enforce='cif_buf_write', tus=T, defines={'MAXB': 24, 'MAXL': 6}, thorough_defines={'MAXB': 48},
            loops=1, reach=['written', 'grown', 'failed'], min_obligations=20, timeout=1200, mem_gb=16, flags=['--malloc-may-fail', '--malloc-fail-null'],
            clauses=['appended bytes == source', 'earlier bytes preserved across growth', 'growth loop terminates', 'failure leaves the buffer unchanged',
                     'no size_t overflow']),
        Job('buf_read', 'value_h.c', entry='harness_buf_read', enforce='cif_buf_read', tus=T, defines={'MAXB': 24, 'MAXL': 6}, thorough_defines={'MAXB': 64},
            reach=['read', 'nothing'], min_obligations=20, timeout=600,
            clauses=['returns min(available, max)', 'delivered bytes == stored bytes', 'position advanced by the count']),
    ]


def check(tier):
    return vlib.run_property('C07', jobs(), tier, LEVEL, UNDECIDED)
