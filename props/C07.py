"""C07 - values stored in a CIF are read back identical."""
import vlib
from vlib import Job

LEVEL = ('Contracts on the serialisation buffers of value.c (the byte stream that carries every stored value into and out of SQLite): '
         'cif_buf_write appends exactly the source bytes, preserves what was written before, terminates (decreases clause on the growth '
         'loop) and fails cleanly; cif_buf_read delivers exactly the stored bytes.')
UNDECIDED = ['SET_VALUE_PROPS / GET_VALUE_PROPS column mapping and UTF-16/UTF-8 transcoding inside SQLite',
             'serialise/deserialise round trip of lists and tables (recursion + uthash)', 'texts longer than the bound of the round-trip jobs']


COMPOSITE = ['cif_list_serialize', 'cif_table_serialize', 'cif_list_deserialize', 'cif_table_deserialize']


def jobs():
    T = ['value.c']
    RT = {'VERIF_SCALAR_ONLY': 1, 'MAXL': 6, 'MAXT': 12, 'MAXW': 6}
    return [
        Job('buf_write', 'value_h.c', entry='harness_buf_write', enforce='cif_buf_write', tus=T, defines={'MAXB': 24, 'MAXL': 6}, thorough_defines={'MAXB': 48},
            loops=1, reach=['written', 'grown', 'failed'], min_obligations=20, timeout=1200, mem_gb=16, flags=['--malloc-may-fail', '--malloc-fail-null'],
            clauses=['appended bytes == source', 'earlier bytes preserved across growth', 'growth loop terminates', 'failure leaves the buffer unchanged',
                     'no size_t overflow']),
        Job('buf_read', 'value_h.c', entry='harness_buf_read', enforce='cif_buf_read', tus=T, defines={'MAXB': 24, 'MAXL': 6}, thorough_defines={'MAXB': 64},
            reach=['read', 'nothing'], min_obligations=20, timeout=600,
            clauses=['returns min(available, max)', 'delivered bytes == stored bytes', 'position advanced by the count']),
        Job('serialize_layout', 'value_h.c', entry='harness_serialize_layout', tus=T, functions=['cif_value_serialize', 'cif_buf_create', 'cif_buf_write'],
            replace=COMPOSITE, no_loop_contracts=True, flags=['--no-malloc-may-fail'], defines=dict(RT, RTN=3), thorough_defines={'RTN': 10}, unwind=14, text_ui=True,
            bounded='CHAR and NUMB values whose text has exactly RTN (3 quick / 10 thorough) arbitrary non-NUL code units, any quoted field; UNK and NA values; loops unwound completely',
            trusted=['u_strlen modelled (answers RTN, asserts that RTN is right)', 'the composite branches are proved unreachable (contracts with precondition false)'],
            reach=['text-layout', 'kind-only-layout'], min_obligations=30, timeout=1200, mem_gb=16,
            clauses=['cif_value_serialize(v) == LAYOUT(v): kind, length, code units in order, quoted flag last']),
        Job('deserialize_layout_char', 'value_h.c', entry='harness_deserialize_layout', tus=T, functions=['cif_value_deserialize', 'cif_buf_read'],
            replace=['cif_value_clean'] + COMPOSITE, no_loop_contracts=True, flags=['--no-malloc-may-fail'], defines=dict(RT, RTN=6), thorough_defines={'RTN': 12}, unwind=16, text_ui=True,
            bounded='texts of exactly RTN (6 quick / 12 thorough) arbitrary non-NUL code units, every value of the quoted field; loops unwound completely',
            trusted=['cif_value_clean replaced by its contract (value.h)', 'the composite branches are proved unreachable'],
            reach=['read-back', 'bad-flag'], min_obligations=30, timeout=1200, mem_gb=16,
            clauses=['cif_value_deserialize(LAYOUT(v)) has the kind, text and quoted status of v', 'the read-back text lives in storage of its own', 'an invalid quoted flag is refused']),
        Job('deserialize_layout_numb', 'value_h.c', entry='harness_deserialize_layout', tus=T, functions=['cif_value_deserialize', 'cif_buf_read', 'cif_value_parse_numb'],
            replace=['cif_value_clean'] + COMPOSITE, no_loop_contracts=True, flags=['--no-malloc-may-fail'], defines=dict(RT, RTN=10, RT_NUMB=1), unwind=14, text_ui=True,
            bounded='one concrete number text (-1.50e2(3)), every value of the quoted field: the lemma is about the wire format and the order of the deserialisation steps (number syntax: C10)',
            trusted=['cif_value_clean replaced by its contract (value.h)', 'the composite branches are proved unreachable'],
            reach=['read-back', 'bad-flag'], min_obligations=30, timeout=1200, mem_gb=16,
            clauses=['a number is read back with its quoted status (the flag is read after the number text is parsed)', 'text, sign, digits, su digits and scale as parsed']),
    ]


def check(tier):
    return vlib.run_property('C07', jobs(), tier, LEVEL, UNDECIDED)
