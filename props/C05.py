"""C05 - a failed API call leaves the managed CIF unchanged."""
import os
import vlib
from vlib import Job
from props import C06

LEVEL = ('Contracts on mutating functions over a ghost model of SQLite transactions and savepoints (stubs/sqlite_model.h): a call that returns an error has undone '
         'every write it stepped and nothing else - nothing durable, the enclosing transaction (if any) still open with exactly the writes and savepoints it had - '
         'and a successful call leaves the bracket as it found it. What the individual SQL statements do to the tables is SQLite\'s and not decided.')
UNDECIDED = ['that the SQL text of each statement does what its name says, and cascades / triggers (executed by SQLite)',
             'that SQLite makes a rolled-back transaction or savepoint invisible (assumed: it is the meaning of the ghost model)',
             'mutators not listed under functions (cif_loop_add_packet, cif_container_set_value, cif_container_remove_item, block / frame creation): not under contract yet',
             '"a following valid call behaves as if the failed one had never been made" beyond the transaction state (statement recycling is modelled, table content is not)']
SQL = C06.SQL


def jobs():
    T = ['container.c']
    js = [
        Job('create_loop_internal', 'container_h.c', entry='harness_create_loop_internal', enforce='cif_container_create_loop_internal', replace=['cif_u_strdup', 'cif_loop_free'], tus=T,
            loops=1, reach=['created-nested', 'created-top', 'dup-name-nested-after-writes', 'reserved', 'invalid-handle', 'oom'], min_obligations=30, timeout=1500, mem_gb=24, replay=False,
            trusted=[SQL, 'cif_u_strdup / cif_loop_free by assumed contract', 'strcmp modelled loop-free for the single call (comparison of the SQLite error message)'],
            clauses=['failure at any name position (first / middle / last), inside or outside a transaction => every write undone, nothing else undone, nothing durable',
                     'success => bracket closed (RELEASE inside, COMMIT outside), nothing lost', 'never COMMIT or ROLLBACK of an enclosing transaction', 'caller\'s handle variable untouched on failure']),
        Job('set_value', 'container_h.c', entry='harness_set_value', enforce='cif_container_set_value', tus=T,
            replace=['cif_normalize_item_name', 'cif_container_get_item_loop_internal', 'cif_container_add_scalar', 'cif_container_set_all_values'],
            reach=['set', 'failed-after-writes', 'refused-inside-transaction'], min_obligations=30, timeout=900, mem_gb=16, replay=False, flags=['--sat-solver', 'cadical'],
            trusted=[SQL, 'ASSUMED contracts of the helpers cif_container_add_scalar / cif_container_set_all_values (they stay inside the caller\'s transaction; every write pending or undone), '
                     'cif_container_get_item_loop_internal (reads only), cif_normalize_item_name'],
            clauses=['BEGIN ... COMMIT bracket: any helper failure or COMMIT failure => ROLLBACK, nothing durable', 'refused without effect inside an open transaction',
                     'success => transaction closed, writes durable']),
    ]
    for j in C06.jobs():
        if j.name in ('remove_packet', 'update_packet_guards'):
            j.name = 'pktitr_' + j.name
            js.append(j)
    return js


def check(tier):
    return vlib.run_property('C05', jobs(), tier, LEVEL, UNDECIDED)
