"""C02 - everything cif_write emits re-parses to an equivalent CIF."""
import vlib
from vlib import Job

LEVEL = ('Function contracts on the line-formatting code of ciffile.c, enforced by CBMC/dfcc with every loop closed by an invariant; '
         'target length and window are symbolic, so the proof does not depend on the 2040/6 used at the single call site.')
UNDECIDED = ['byte-level output of ICU u_fprintf (UTF-8 validity)', 're-parse equivalence of whole documents (needs the parser and SQLite)',
             'that cif_write succeeds for every CIF built through the API']


def jobs():
    T = ['ciffile.c', 'utils.c']
    return [
        Job('fold_line', 'ciffile_write_h.c', entry='harness_fold_line', enforce='fold_line', replace=['u_strlen_72'], tus=T, defines={'MAXN': 24}, thorough_defines={'MAXN': 64},
            loops=6, reach=['folded', 'no-fold-point', 'whole-line'], min_obligations=50, timeout=1200, mem_gb=16,
            clauses=['result within the line; whole line when it fits or folding is off', 'never between the halves of a surrogate pair',
                     'never directly before a semicolon unless lines are prefixed', 'over-long segment / 0 only when no admissible point exists']),
    ]


def check(tier):
    return vlib.run_property('C02', jobs(), tier, LEVEL, UNDECIDED)
