"""C13 - CIF 1.1 output is pure CIF 1.1 and round-trips, or is refused."""
import vlib
from vlib import Job

LEVEL = ('Contracts on the CIF 1.1 gatekeeper cif_validate_cif11_characters (accepts exactly TAB, LF, CR, U+0020..U+007E; reports the first offender; '
         'no out-of-bounds table access for any code unit), on write_quoted (line-length accounting against a ghost column monitor) and - shared with '
         'C02 - on fold_line.')
UNDECIDED = ['re-parse equivalence of the written document', 'write_item / write_char refusal paths (lists, tables, text containing newline-semicolon): not yet under contract',
             'byte-level behaviour of ICU u_fprintf']
OUT = 'models of u_fprintf / u_fputc in harness/ciffile_write_h.c: report an arbitrary count / error; that last_column is the true output column is assumed'


def jobs():
    T = ['ciffile.c', 'utils.c']
    return [
        Job('validate_cif11', 'ciffile_write_h.c', entry='harness_validate_cif11', tus=T, functions=['cif_validate_cif11_characters'],
            defines={'MAXN': 8}, thorough_defines={'MAXN': 24}, plain=True, text_ui=True, no_loop_contracts=True, unwind=100, replay=False,
            bounded='all strings of fewer than MAXN (8 quick / 24 thorough) code units, ALL 65536 values per code unit; the table-initialisation loop (98 constant iterations) and the scan loop are unwound completely (a loop contract on the function-static table crashes cbmc 6.11: from_integer precondition)',
            reach=['cif11-ok', 'cif11-refused'], min_obligations=20, timeout=900, mem_gb=16,
            clauses=['CIF_OK <=> every code unit in {TAB, LF, CR, 0x20..0x7E}', 'first offender reported', 'no out-of-bounds access of the lookup table for any code unit']),
        Job('write_quoted', 'ciffile_write_h.c', entry='harness_write_quoted', enforce='write_quoted', tus=T, defines={'MAXN': 24},
            reach=['wq-ok', 'wq-error'], min_obligations=10, trusted=[OUT], timeout=600, replay=False,
            clauses=['success => column bookkeeping exact and no line longer than 2048 code units']),
        Job('fold_line', 'ciffile_write_h.c', entry='harness_fold_line', enforce='fold_line', replace=['u_strlen_72'], tus=T, defines={'MAXN': 24}, thorough_defines={'MAXN': 64},
            loops=6, reach=['folded', 'no-fold-point', 'whole-line'], min_obligations=50, timeout=1200, mem_gb=16,
            clauses=['a fold never puts ";" first on a continuation line of an unprefixed (CIF 1.1) text field', 'never splits a surrogate pair']),
    ]


def check(tier):
    return vlib.run_property('C13', jobs(), tier, LEVEL, UNDECIDED)
