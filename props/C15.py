"""C15 - parse-time callbacks mirror the document and steer what is stored."""
import vlib
from vlib import Job

LEVEL = ('Contract on the production parse_container() (data blocks and save frames, recursive through --enforce-contract-rec) with the token source, '
         'the item/loop sub-productions and every storage function replaced by contracts: skip_depth accounting on every path, no block/frame/'
         'keyword/data-name callback while a skip is in effect (assertion in every callback stub), no storage call while skipping or without a target.')
UNDECIDED = ['parse_cif, parse_loop, parse_loop_header, parse_loop_packets, parse_value/list/table: assumed balanced (contracts), not yet enforced; '
             'the known defect F4 (handle_item delivered for loop values while skipping, parser.c parse_loop_packets) lies there',
             'that the items reported are those later found in the CIF (storage = SQLite)', 'whitespace callbacks during error recovery are not constrained',
             'callback order across productions, END / positive handler result propagation through parse_cif']
SUB = 'assumed contracts (contracts/parser_prod.h): next_token yields an arbitrary token; parse_item / parse_loop leave skip_depth as they found it; storage functions'


def jobs():
    R = ['next_token', 'parse_item', 'parse_loop', 'cif_container_create_frame', 'cif_container_create_frame_internal', 'cif_container_get_frame',
         'cif_container_get_item_loop', 'cif_container_prune', 'cif_container_free', 'u_strncpy_72']
    return [
        Job('parse_container', 'parser_prod_h.c', entry='harness_parse_container', enforce='parse_container', rec=True, replace=R, tus=['parser.c'],
            loops=0, no_loop_contracts=True, text_ui=True, unwindset=['parse_container_wrapped_for_contract_checking.0:4', 'parse_container.0:4'], flags=['--malloc-may-fail', '--malloc-fail-null', '--no-unwinding-assertions'],
            bounded='at most 3 tokens per container at each nesting level (token loop unwound 3 times, longer runs cut); token types, handler answers, callback registration, nesting: unbounded',
            reach=['entered-skipping', 'sibling-handoff', 'stored'], min_obligations=50, timeout=1800, mem_gb=44, replay=False, trusted=[SUB],
            clauses=['skip depth balanced on every path (incl. error exits and allocation failure)', 'start/end handlers, loop_ keyword and data-name callbacks silent while skipping',
                     'frames are created / looked up / pruned only outside a skip and only with a target container', 'error callback line >= 1']),
        Job('parse_item', 'parser_prod_h.c', entry='harness_parse_item', enforce='parse_item', tus=['parser.c'],
            replace=['next_token', 'parse_value', 'cif_container_set_value', 'cif_value_free', 'cif_value_create'], text_ui=True,
            reach=['item-stored', 'item-skipped', 'item-skip-siblings'], min_obligations=30, timeout=1800, mem_gb=44, replay=False, trusted=[SUB],
            clauses=['item callback and storage only for a named item outside a skip', 'stored only after CONTINUE (or without handler)', 'skip depth restored; SKIP_SIBLINGS handed off as depth 1',
                     'value released on every path']),
        Job('parse_loop_packets', 'parser_prod_h.c', entry='harness_parse_loop_packets', enforce='parse_loop_packets', tus=['parser.c'],
            replace=['next_token', 'parse_value', 'cif_packet_create', 'cif_packet_get_item', 'cif_packet_free', 'cif_value_init', 'cif_value_create', 'cif_value_free', 'cif_loop_add_packet'],
            text_ui=True, no_loop_contracts=True,
            unwindset=['parse_loop_packets_wrapped_for_contract_checking.0:4', 'parse_loop_packets_wrapped_for_contract_checking.1:5', 'parse_loop_packets_wrapped_for_contract_checking.2:4',
                       'parse_loop_packets.0:4', 'parse_loop_packets.1:5', 'parse_loop_packets.2:4'],
            flags=['--malloc-may-fail', '--malloc-fail-null', '--no-unwinding-assertions'],
            bounded='loops of 1-2 columns (named or duplicate place-holders) and at most 4 tokens in the loop body; token types, handler answers and registrations arbitrary',
            reach=['packet-stored', 'body-skipped', 'item-reported'], min_obligations=30, timeout=1800, mem_gb=44, replay=False, trusted=[SUB],
            clauses=['packet_start / item / packet_end callbacks silent while a skip is in effect', 'packets stored only outside a skip, only with a target loop, only after packet_end answered CONTINUE',
                     'skip depth restored by a completed loop body entered while skipping']),
    ]


def check(tier):
    return vlib.run_property('C15', jobs(), tier, LEVEL, UNDECIDED)
