"""C14 - cif_walk visits every element once and obeys navigation directives."""
import vlib
from vlib import Job

LEVEL = ('Per-level function contracts on the real walker of cif.c, each function enforced with its callees replaced by their contracts '
         '(modular), loops over handle arrays and the item chain closed by invariants, recursion through --enforce-contract-rec. Ghost monitors '
         'carried by the handler stubs and callee contracts decide: no callback after END/error, no sibling after SKIP_SIBLINGS, every child '
         'walked once in order when nobody skips, start before children before end, result-code protocol, every handle released.')
UNDECIDED = ['nesting depth of save frames below the ghost limit g_depth_limit < 1000000 (the recursion adds 1 per level)',
             'that the getters (cif_get_all_blocks, cif_container_get_all_frames/loops, cif_loop_get_packets, cif_pktitr_next_packet) '
             'enumerate exactly what is stored (SQL; assumed contracts)',
             'end callback of an element whose start answered other than CONTINUE or whose children were cut short: not constrained (DESIGN 5/C14)']
GETTERS = 'assumed contracts for cif_get_all_blocks / cif_container_get_all_frames / cif_container_get_all_loops / cif_loop_get_packets / ' \
          'cif_pktitr_next_packet / cif_pktitr_close / *_free (contracts/cif_walk.h): fresh NULL-terminated handle arrays, packets delivered one by one'
LOCAL = (r'walk_loop\.assigns\.\d+ Check that packet_result is assignable',
         'dfcc tracks a variable declared in a loop body only in the write set of that loop; the assignment to packet_result on the '
         'break path lies outside the natural loop, so the frame check of this block-local cannot be discharged (tool limitation, DESIGN 2)')
CLOSE = 'cif_pktitr_close is assumed to return CIF_OK (a failing COMMIT is outside C14)'
LAYOUT = 'packet entries are modelled as consecutive elements of one array linked in order through hh.next (the walker does no address arithmetic on entries)'


def jobs():
    T = ['cif.c']
    D = {'MAXK': 3}
    return [
        Job('walk_item', 'cif_walk_h.c', entry='harness_walk_item', enforce='walk_item', tus=T, defines=D,
            reach=['item-cb', 'item-nocb'], min_obligations=10, replay=False,
            clauses=['exactly one handle_item(name, value, context) when registered, answer passed through']),
        Job('walk_packet', 'cif_walk_h.c', entry='harness_walk_packet', enforce='walk_packet', replace=['walk_item'], tus=T, defines=D,
            thorough_defines={'MAXK': 12}, loops=1, reach=['packet-end', 'stopped', 'skip-sib'], min_obligations=20, replay=False,
            trusted=[LAYOUT],
            clauses=['packet_start first', 'items in chain order, each once', 'no item after SKIP_SIBLINGS/END/error',
                     'packet_end exactly when all items were presented', 'SKIP_SIBLINGS from an item => CONTINUE to the loop']),
        Job('walk_loop', 'cif_walk_h.c', entry='harness_walk_loop', enforce='walk_loop', tus=T, defines=D, loops=1,
            replace=['walk_packet', 'cif_loop_get_packets', 'cif_pktitr_next_packet', 'cif_pktitr_close', 'cif_packet_free'],
            reach=['loop-end', 'stopped', 'packet-skip-sib'], min_obligations=20, replay=False, trusted=[GETTERS, CLOSE], tool_artefacts=[LOCAL],
            clauses=['loop_start first', 'every packet delivered by the iterator is walked once', 'no packet after SKIP_SIBLINGS/END/error',
                     'loop_end exactly when all packets were presented', 'iterator closed and packet freed on every path']),
        Job('walk_loops', 'cif_walk_h.c', entry='harness_walk_loops', enforce='walk_loops', tus=T, defines=D, thorough_defines={'MAXK': 12}, loops=1,
            replace=['walk_loop', 'cif_container_get_all_loops', 'cif_loop_free'],
            reach=['stopped', 'skip-sib', 'all-loops'], min_obligations=20, replay=False, trusted=[GETTERS],
            clauses=['loops walked in array order, each once', 'no loop after SKIP_SIBLINGS/END/error', 'every handle freed exactly once',
                     'answer protocol towards walk_container']),
        Job('walk_container', 'cif_walk_h.c', entry='harness_walk_container', enforce='walk_container', rec=True, tus=T, defines=D, loops=1,
            replace=['walk_loops', 'cif_container_get_all_frames', 'cif_container_free'], timeout=1800, mem_gb=16,
            reach=['container-end', 'stopped', 'loops-walked', 'skip-sib'], min_obligations=20, replay=False, trusted=[GETTERS],
            clauses=['block/frame start first', 'save frames before loops', 'no frame after SKIP_SIBLINGS/END/error (any nesting depth, watched-depth ghost)',
                     'SKIP_SIBLINGS from a frame does not suppress the loops; END/error does', 'end callback after all children',
                     'every frame handle freed', 'recursion through the same contract (--enforce-contract-rec)']),
        Job('cif_walk', 'cif_walk_h.c', entry='harness_cif_walk', enforce='cif_walk', tus=T, defines=D, loops=1,
            replace=['walk_container', 'cif_get_all_blocks', 'cif_container_free'], timeout=1800, mem_gb=16,
            reach=['cif-end', 'error', 'end-directive'], min_obligations=20, replay=False, trusted=[GETTERS],
            clauses=['cif_start first', 'blocks in order, each once', 'no block after SKIP_SIBLINGS/END/error',
                     'CIF_OK for navigation answers incl. END; error codes returned unchanged', 'cif_end after an undisturbed walk']),
    ]


PENDING = ()   # under development: not part of the registered check until they discharge


def check(tier):
    return vlib.run_property('C14', [j for j in jobs() if j.name not in PENDING or __import__('os').environ.get('VERIF_JOBS')], tier, LEVEL, UNDECIDED)
