"""C16 - no leaks, no out-of-bounds access, no lasting global side effects (scope: the functions under contract)."""
import copy
import vlib
from props import C07, C08, C09, C13, C17, C18, C19, C02

LEVEL = ('Not a separate set of proofs: every job of the other properties runs with CBMC 6 default checks (pointer dereference, array bounds, pointer '
         'arithmetic, signed overflow, shift, division by zero, free preconditions, pointer primitives); C16 re-runs those jobs whose functions own or '
         'walk memory and counts their obligations here, with --memory-leak-check where the harness releases everything the caller owns. '
         'The scope is exactly the functions listed under functions_under_contract / functions_bounded_only.')
UNDECIDED = ['every function not under contract (all SQLite choreography in cif.c/container.c/loop.c/pktitr.c, most of parser.c, the bignum code of value.c)',
             'LC_NUMERIC restoration in cif_value_init_numb / autoinit_numb (setlocale returns the NEW locale name, so the restore is a no-op: defect F6 of '
             'DESIGN 6, confirmed natively, not yet under contract)',
             'floating-point rounding mode: fesetround does not occur in /repo (static fact checked by grep on every run)']

PICK = {
    C09: ['has_whitespace', 'has_disallowed_chars', 'is_valid_name'],
    C18: ['is_reserved_string'],
    C13: ['validate_cif11', 'write_quoted'],
    C02: ['fold_line'],
    C07: ['buf_write', 'buf_read'],
    C17: ['unicode_normalize_oom'],
    C19: ['get_element_at', 'set_element_at', 'remove_element_at'],
    C08: ['get_more_chars_bookkeeping'],
}


def own_jobs():
    from vlib import Job
    return [
        Job('loop_set_category', 'loop_h.c', entry='harness_set_category', enforce='cif_loop_set_category', tus=['loop.c'],
            flags=['--malloc-may-fail', '--malloc-fail-null', '--memory-leak-check'], reach=['reserved', 'set', 'oom', 'sql-error'], min_obligations=30, timeout=1200, mem_gb=16, replay=False,
            trusted=['SQLite transaction model (stubs/sqlite_model.h)', 'cif_u_strdup modelled by a malloc-based body for strings of at most one unit'],
            clauses=['no allocation made by the call is left behind on any return path (memory-leak check; the caller owns only the handle and its category)',
                     'reserved category refused, handle untouched on early errors', 'no invalid free, no use after free']),
    ]


def jobs():
    out = own_jobs()
    for mod, names in PICK.items():
        for j in mod.jobs():
            if j.name in names:
                j = copy.copy(j)
                j.name = mod.__name__.split('.')[-1] + '_' + j.name
                out.append(j)
    return out


def static_facts():
    import os, re, subprocess
    r = subprocess.run('grep -l "fesetround" %s/src/*.c %s/src/internal/*.h' % (vlib.REPO, vlib.REPO), shell=True, capture_output=True, text=True)
    hits = [os.path.basename(x) for x in r.stdout.split()]
    return ['fesetround occurs in: %s' % (', '.join(hits) if hits else 'no source file of /repo/src (rounding mode is never written)')]


def check(tier):
    return vlib.run_property('C16', jobs(), tier, LEVEL, UNDECIDED, static_facts=static_facts())
