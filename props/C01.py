"""C01 - well-formed CIF parses to exactly the content it denotes (text-field decoding part)."""
import vlib
from vlib import Job

LEVEL = ('decode_text() - the decoder of the text-prefix and line-folding protocols and of line terminators inside text fields - is compared, for ALL '
         'texts of at most MAXD code units (every 16-bit value per unit) and both settings of the decoding options, with a reference decoder written from the '
         'CIF 2.0 specification; out-of-bounds writes to the output buffer are obligations of the same run. Bounded: complete unwinding, MAXD = 6 quick / 8 thorough.')
UNDECIDED = ['texts longer than the bound', 'decoding with only one of the two protocols enabled (non-default option combinations)',
             'scanner lexemes, parse_value coercions, list / table structure: not under contract',
             'that the stored CIF equals the denotation of the token stream (SQLite)']


def jobs(tier='quick'):
    out = []
    top = 6 if tier == 'quick' else 8
    for n in range(1, top + 1):
        out.append(Job('decode_text_len%d' % n, 'parser_decode_h.c', entry='harness_decode_text', tus=['parser.c'], functions=['decode_text'], plain=True, no_loop_contracts=True,
            defines={'MAXD': n, 'FIXN': n}, unwind=n + 3, text_ui=True,
            unwindset=['harness_decode_text.1:170', 'harness_decode_text.2:170', 'harness_decode_text.3:170', 'harness_decode_text.4:170'],
            bounded='all texts of exactly %d code units (every 16-bit value per unit), protocols both enabled or both disabled; every loop unwound completely '
                    '(unwinding assertions on). One job per length: the length is concrete because decode_text allocates a buffer of that size' % n,
            reach=['decoded-shorter', 'verbatim'] if n >= 2 else ['verbatim'], min_obligations=30, timeout=1800, mem_gb=16,
            trusted=['models of cif_value_init_char / cif_value_init / u_strncpy / u_strncmp in the harness', 'reference decoder r_decode() (harness/parser_decode_h.c), written from the CIF 2.0 text-field protocols'],
            clauses=['prefix recognised and stripped exactly as the protocol says (incl. a last line that is only the prefix)', 'folded lines joined, backslash + blanks + terminator removed',
                     'CR / CR LF / LF inside the value read as one LF', 'no write outside the n+1 unit output buffer']))
    return out


def check(tier):
    return vlib.run_property('C01', jobs(tier), tier, LEVEL, UNDECIDED)
