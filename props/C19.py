"""C19 - value objects are independent deep values; lists and tables keep their contracts."""
import vlib
from vlib import Job

LEVEL = ('Whole-view contracts on the real list operations of value.c (every slot of the element array is constrained after each operation), '
         'enforced by CBMC/dfcc with the shift loops closed by invariants; callees (clone/create/free/clean) replaced by their contracts.')
UNDECIDED = ['tables and packets (uthash macros): only bounded checks are within reach, see bounded_jobs',
             'unbounded list capacity: the element array is modelled with at most MAXL slots']
VAL = 'abstract contracts of cif_value_clone/create/free/clean as callees of the list operations (contracts/value.h); their own bodies are enforced in separate jobs'


def jobs():
    T = ['value.c']
    D = {'MAXL': 6}
    TD = {'MAXL': 16}
    NS = []  # ['--no-simplify'] would work around the union bug but does not terminate; harness values live on the heap instead   # cbmc 6.11 loses pointers stored in union cif_value_u when its expression simplifier is on (DESIGN 2)
    R = ['cif_value_clone', 'cif_value_create', 'cif_value_free', 'cif_value_clean']
    return [
        Job('get_element_at', 'value_h.c', entry='harness_get_element_at', enforce='cif_value_get_element_at', tus=T, defines=D, thorough_defines=TD,
            reach=['got', 'bad-index', 'wrong-kind'], min_obligations=10, flags=NS, clauses=['by reference', 'INVALID_INDEX / ARGUMENT_ERROR']),
        Job('set_element_at', 'value_h.c', entry='harness_set_element_at', enforce='cif_value_set_element_at', replace=R, tus=T, defines=D, thorough_defines=TD,
            reach=['set', 'bad-index', 'wrong-kind'], min_obligations=10, trusted=[VAL], flags=NS,
            clauses=['replaces in place: array, size and every slot pointer unchanged', 'target cleaned then cloned onto', 'self-assignment is a no-op']),
        Job('insert_element_at', 'value_h.c', entry='harness_insert_element_at', enforce='cif_value_insert_element_at', replace=R + ['realloc'], tus=T,
            defines=dict(D, VERIF_REALLOC_LIST=1), thorough_defines={'MAXL': 8},   # this job needs ~20 GB at MAXL=6 already
            loops=0, reach=['inserted', 'grown', 'refused'], min_obligations=10, trusted=[VAL, 'realloc: assumed contract (contracts/value.h) instead of the CBMC model: NULL and old block intact, or fresh block with the old slots copied'], flags=NS, timeout=1200, mem_gb=40, no_loop_contracts=True, text_ui=True, unwindset=['cif_value_insert_element_at_wrapped_for_contract_checking.0:18'],
            bounded='list capacity <= MAXL (6 quick / 8 thorough); the shift loop is unwound completely (unwinding assertions on) instead of being closed by its invariant: dfcc + realloc + a store through a pointer reloaded from the heap does not terminate with the loop contract',
            clauses=['sequence insert over the whole view', 'capacity growth', 'failed growth leaves the list unchanged and frees the copy']),
        Job('remove_element_at', 'value_h.c', entry='harness_remove_element_at', enforce='cif_value_remove_element_at', replace=R, tus=T, defines=D, thorough_defines=TD,
            loops=1, reach=['removed', 'refused'], min_obligations=10, trusted=[VAL], flags=NS,
            clauses=['gap closed over the whole view', 'ownership of the removed member']),
    ]


PENDING = ()


def check(tier):
    return vlib.run_property('C19', [j for j in jobs() if j.name not in PENDING or __import__('os').environ.get('VERIF_JOBS')], tier, LEVEL, UNDECIDED)
