"""C10 - number text and double values convert with correct rounding."""
import vlib
from vlib import Job

LEVEL = ('The rounding decision helpers is_zero / compare_half are under contract (unbounded in the number of bignum words up to MAXW, loop closed by an invariant). '
         'cif_value_parse_numb is compared, for ALL strings shorter than MAXT code units, with a 20-line recogniser of the CIF numeric syntax written '
         'from the property statement (bounded: loops unwound, unwinding assertions on); memory safety and absence of signed overflow are '
         'obligations of the same run.')
UNDECIDED = ['correct rounding of to_double / to_digits (base-10^9 bignum arithmetic with frexp/ldexp/log10: multiply/divide chains are beyond '
             'every installed back end and CBMC has no usable libm model) - not decided, no bounded stand-in offered',
             'cif_value_init_numb / autoinit_numb text rendering', 'strings of MAXT code units or more']


def jobs():
    T = ['value.c']
    return [
        Job('is_zero', 'value_h.c', entry='harness_is_zero', enforce='is_zero', tus=T, defines={'MAXW': 6, 'MAXL': 6, 'MAXT': 8}, thorough_defines={'MAXW': 16},
            loops=1, reach=['zero', 'nonzero'], min_obligations=10, timeout=900,
            clauses=['1 exactly when check_value and every later bignum word up to lsd are zero']),
        Job('compare_half', 'value_h.c', entry='harness_compare_half', enforce='compare_half', replace=['is_zero'], tus=T, defines={'MAXW': 6, 'MAXL': 6, 'MAXT': 8},
            thorough_defines={'MAXW': 16}, reach=['tie', 'above', 'below'], min_obligations=10, timeout=900,
            clauses=['sign of (tail - half): the tie / above / below decision on which round-half-even in to_double / to_digits rests']),
        Job('parse_numb_bounded', 'value_h.c', entry='harness_parse_numb_bounded', tus=T, defines={'MAXT': 8, 'MAXL': 6}, thorough_defines={'MAXT': 12},
            no_loop_contracts=True, unwind=14, bounded='all strings of fewer than MAXT (8 quick / 12 thorough) code units, every loop unwound completely',
            reach=['accepted', 'refused'], min_obligations=50, timeout=1500, mem_gb=16, replace=['cif_value_clean'],
            trusted=['cif_value_clean replaced by its contract (value.h): its recursive body (lists, uthash tables) is not unwound in this job'],
            functions=['cif_value_parse_numb'],
            clauses=['accepts exactly [+-]?(D+|D+.D*|.D+)([eE][+-]?D+)?(\\(D+\\))?', 'refusal leaves the value untouched', 'sign; NUMB kind owning the text',
                     'no out-of-bounds access / signed overflow / leak within the bound']),
    ]


def check(tier):
    return vlib.run_property('C10', jobs(), tier, LEVEL, UNDECIDED)
