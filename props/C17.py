"""C17 - a failed memory allocation yields an error code, not a crash or corruption."""
import vlib
from vlib import Job

LEVEL = ('Functions under contract are re-verified with CBMC --malloc-may-fail --malloc-fail-null (every malloc/calloc/realloc of the function '
         'may fail independently: a superset of "any single allocation fails") and --memory-leak-check: documented error code, outputs untouched, '
         'nothing leaked, no invalid free, no out-of-bounds access on any failure path.')
UNDECIDED = ['allocations inside SQLite and ICU', 'functions not (yet) under contract: everything outside the jobs listed in this evidence',
             'that the same call succeeds when repeated with memory available (follows from "state unchanged" only where that clause is proved)']
ICU = 'assumed ICU preflighting contract for unorm_normalize (contracts/utils.h): result length independent of the buffer, overflow / not-terminated status protocol'
MF = ['--malloc-may-fail', '--malloc-fail-null', '--memory-leak-check']


def jobs():
    from props import C19
    ins = [j for j in C19.jobs() if j.name == 'insert_element_at']
    for j in ins:
        j.name = 'list_insert_failed_growth'
        j.clauses = ['a failed growth reallocation => CIF_MEMORY_ERROR, list (array, size, capacity, every slot) unchanged, the copy released']
    return ins + [
        Job('unicode_normalize_oom', 'utils_h.c', entry='harness_unicode_normalize', enforce='cif_unicode_normalize', replace=['unorm_normalize_72', 'u_strlen_72'],
            tus=['utils.c'], defines={'MAXN': 8}, thorough_defines={'MAXN': 16}, flags=MF, unwind=4, bounded=None,
            reach=['normalised', 'norm-failed'], min_obligations=20, trusted=[ICU], timeout=1200, mem_gb=16, add_library=True,
            note='--unwind 4 with unwinding assertions on the retry loop: the obligation proves that a third pass is impossible (the loop is not bounded by an input)',
            clauses=['any subset of the (up to three) allocations failing => CIF_MEMORY_ERROR with outputs untouched and nothing leaked',
                     'terminator written inside the buffer', 'buffer not used after realloc/free']),
        Job('buf_write_oom', 'value_h.c', entry='harness_buf_write', enforce='cif_buf_write', tus=['value.c'], defines={'MAXB': 24, 'MAXL': 6},
            loops=1, reach=['written', 'grown', 'failed'], min_obligations=20, timeout=1200, mem_gb=16, flags=['--malloc-may-fail', '--malloc-fail-null'],
            clauses=['failed growth realloc => CIF_MEMORY_ERROR and the buffer (start, position, limit, capacity, content) unchanged']),
    ]


def check(tier):
    return vlib.run_property('C17', jobs(), tier, LEVEL, UNDECIDED)
