"""C18 - string analysis and quoting rules agree with what the parser reads back."""
import vlib
from vlib import Job

LEVEL = ('Function contracts on the real utils.c / value.c enforced by CBMC/dfcc; cif_is_reserved_string is loop-free, so its proof is '
         'complete for every string whose first NUL lies within the modelled object (reads past the NUL are out-of-bounds obligations).')
UNDECIDED = []


def jobs():
    T = ['utils.c']
    return [
        Job('is_reserved_string', 'utils_h.c', entry='harness_is_reserved_string', enforce='cif_is_reserved_string', tus=T,
            defines={'MAXN': 12}, thorough_defines={'MAXN': 24}, unwind=None, reach=['reserved', 'not-reserved'], min_obligations=10,
            clauses=['true exactly for a reserved first character (_ # $ \' ") or data_*, save_*, loop_, stop_, global_ '
                     '(ASCII case-insensitive)', 'never reads past the terminating NUL'], timeout=300),
        Job('analyze_string', 'utils_h.c', entry='harness_analyze_string', enforce='cif_analyze_string', tus=T,
            replace=['cif_is_reserved_string', 'u_strstr_72'], defines={'MAXN': 10}, thorough_defines={'MAXN': 24}, loops=2,
            reach=['bare', 'quoted', 'triple', 'text-field'], min_obligations=50, timeout=1800, mem_gb=16,
            trusted=['assumed ICU contracts u_strstr (first occurrence or NULL) and u_strcpy', 'reference statistics an_ghosts() in harness/utils_h.c (executable form of the documented statistics)'],
            clauses=['length, number of lines, first / last / longest line, longest semicolon run, newline-semicolon: exact',
                     'delimiter permitted by the arguments and absent from / safe for the string', 'bare or single quoting preferred for a short single line']),
    ]


def check(tier):
    return vlib.run_property('C18', jobs(), tier, LEVEL, UNDECIDED)
