"""C08 - parse results are independent of line-terminator style and buffer boundaries."""
import vlib
from vlib import Job

LEVEL = ('Contract on get_more_chars(), the only place where scanned text is moved relative to the scan buffer: for every buffer state '
         '(reset, compaction by memmove, growth by malloc+memcpy, plain append) and every answer of the character source the scanner stays '
         'well formed and the token-relative offsets (scanned length, position of the token value) are preserved; the source is asked at most '
         'once, for a positive count, into the free tail. The buffer-management half has no loop: the proof is complete for all states of a '
         'buffer object of at most MAXBUF units.')
UNDECIDED = ['CR / CR LF folding for fills longer than the bound of the bounded job; a CR LF pair split across two fills (CR last in one fill, LF first in the next) is '
             'turned into two newlines by design of the code (the trailing CR is rewritten at once): noted in DESIGN 6/F1b, not decided here',
             'line counting (HANDLE_EOL) and decode_text terminator normalisation', 'ICU converter chunking']
SRC = 'assumed contracts for the character source (read_func), libc memmove/memcpy (range checked, content not modelled) and ICU u_memchr / u_memmove (contracts/parser_buf.h); in this job the delivered data contain no CR'


def jobs():
    return [
        Job('get_more_chars_bookkeeping', 'parser_buf_h.c', entry='harness_get_more_chars', enforce='get_more_chars', tus=['parser.c'],
            replace=['stub_read_func', 'u_memchr_72', 'u_memmove_72', 'memmove', 'memcpy'], defines={'MAXBUF': 32}, thorough_defines={'MAXBUF': 128},
            flags=['--malloc-may-fail', '--malloc-fail-null'], unwindset=['get_more_chars.0:3', 'get_more_chars.1:3', 'get_more_chars.2:3'],
            note='--unwindset get_more_chars.N:3 with unwinding assertions: with CR-free data every folding loop provably runs at most once (not a bound on inputs)',
            reach=['more', 'eof', 'oom', 'grown', 'compacted'], min_obligations=30, trusted=[SRC], timeout=1500, mem_gb=24,
            clauses=['token-relative offsets preserved across reset / compaction / growth', 'pointers inside the buffer', 'read_func called at most once with count >= 1 inside the free tail',
                     'no read after end of input', 'growth failure leaves the scanner unchanged']),
        Job('get_first_char', 'parser_buf_h.c', entry='harness_get_first_char', enforce='get_first_char', tus=['parser.c'], defines={'MAXBUF': 32},
            reach=['cr-first', 'plain-first'], min_obligations=20, timeout=900, mem_gb=16, replay=False,
            trusted=['model of the character source (fc_read_func in the harness): delivers up to the requested count'],
            clauses=['no unit delivered by the source is dropped when the input starts with CR', 'CR / CR LF at the very start read as one LF', 'error callback arguments valid']),
        Job('fold_fill_bounded', 'parser_fold_h.c', entry='harness_fold_fill', tus=['parser.c'], functions=['get_more_chars'], plain=True, no_loop_contracts=True,
            defines={'MAXFILL': 4}, thorough_defines={'MAXFILL': 7}, unwind=12, flags=['--object-bits', '10', '--sat-solver', 'minisat2'],   # cbmc reports ERROR statuses for this job with cadical
           
            bounded='one buffer fill of at most MAXFILL (4 quick / 7 thorough) code units with arbitrary content (every arrangement of up to three CR LF pairs, lone CRs, '
                    'pair at the start / end, CR last), 0-2 units already buffered; all loops unwound completely',
            reach=['pair-folded', 'no-pair'], min_obligations=30, timeout=1200, mem_gb=16,
            trusted=['reference bodies of u_memchr / u_memmove (stubs/icu_prims.h)'],
            clauses=['appended region = input with CR LF -> LF and lone CR -> LF', 'buffer_limit exact (a CR LF pair counts once)', 'earlier buffered units untouched']),
    ]


def check(tier):
    return vlib.run_property('C08', jobs(), tier, LEVEL, UNDECIDED)
