"""C09 - codes, data names and table keys: validity rules and normalised matching."""
import vlib
from vlib import Job

LEVEL = ('Function contracts on the real utils.c, enforced by CBMC/dfcc for all strings shorter than MAXN code units with every loop '
         'closed by an invariant (unbounded in the number of iterations).')
UNDECIDED = ['idempotence and canonical-equivalence invariance of NFD/case-fold/NFC (ICU algorithms, assumed)',
             'matching of normalised keys inside SQLite (unique constraints, SQL text)']
ICU = 'ICU u_countChar32: assumed contract (returns the code point count, modelled as a free ghost value)'


def jobs():
    T = ['utils.c']
    return [
        Job('has_whitespace', 'utils_h.c', entry='harness_has_whitespace', enforce='cif_has_whitespace', tus=T,
            defines={'MAXN': 64}, thorough_defines={'MAXN': 512}, loops=1, reach=['ws-found', 'ws-none'], min_obligations=20,
            clauses=['result != 0 <=> some code unit <= U+0020'], timeout=600),
        Job('has_disallowed_chars', 'utils_h.c', entry='harness_has_disallowed_chars', enforce='cif_has_disallowed_chars', tus=T,
            defines={'MAXN': 32}, thorough_defines={'MAXN': 256}, loops=1, reach=['bad-found', 'all-allowed'], min_obligations=20,
            clauses=['result == 0 <=> every code unit belongs to an allowed, well-formed scalar value '
                     '(no C0 except TAB/LF/CR, no U+007F, no U+FDD0..FDEF, no U+xFFFE/xFFFF, no unpaired surrogate)'], timeout=900),
        Job('is_valid_name', 'utils_h.c', entry='harness_is_valid_name', enforce='cif_is_valid_name', tus=T,
            replace=['cif_has_whitespace', 'cif_has_disallowed_chars', 'u_countChar32_72'],
            defines={'MAXN': 12}, thorough_defines={'MAXN': 20}, reach=['valid', 'invalid'], min_obligations=5,
            clauses=['accepted <=> non-NULL, start rule ("_"+1 more / non-empty), code point count <= 2048 (names) / 2043 (codes), '
                     'no whitespace, no disallowed character'], trusted=[ICU], timeout=600),
        Job('cif_normalize_pipeline', 'utils_h.c', entry='harness_cif_normalize', enforce='cif_normalize', tus=T,
            replace=['cif_unicode_normalize', 'cif_fold_case'], defines={'MAXN': 4}, flags=[],
            reach=['normalized', 'normalize-failed'], min_obligations=10, timeout=900, mem_gb=40, replay=False,
            trusted=['contracts of cif_unicode_normalize (enforced in C17) and cif_fold_case (assumed: fresh buffer or error)'],
            clauses=['normalised form = NFC(casefold(NFD(name))) in exactly that order, terminated', 'intermediate buffers freed on every path',
                     'failure leaves *normalized untouched']),
    ]


PENDING = ('cif_normalize_pipeline',)   # terminates with CaDiCaL and a 40 GB cap, but its contract / harness still fails obligations of their own making: not registered


def check(tier):
    import os
    return vlib.run_property('C09', [j for j in jobs() if j.name not in PENDING or os.environ.get('VERIF_JOBS')], tier, LEVEL, UNDECIDED)
