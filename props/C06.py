"""C06 - packet iterators deliver each packet once; close commits, abort reverts."""
import vlib
from vlib import Job

LEVEL = ('Contracts on the iterator life-cycle functions of pktitr.c over a ghost model of SQLite transactions (stubs/sqlite_model.h): stale iterator => '
         'CIF_INVALID_HANDLE, no current packet => CIF_MISUSE without touching the database, remove leaves no current packet for every kind of loop, '
         'a failed remove rolls back to its own savepoint, close = COMMIT (rollback on failure), abort = ROLLBACK, iterator released on every path.')
UNDECIDED = ['that the statement yields every packet of the loop exactly once and in order (SQL query semantics)',
             'cif_pktitr_next_packet row grouping and packet filling (uthash macros: only bounded checks are within reach, not built)',
             'cif_pktitr_update_packet for items that are in the loop: the per-item path needs a populated uthash table (the contract covers empty packets and a single foreign item)',
             'that SQLite makes a rolled-back transaction invisible and a committed one durable (assumed, it is the meaning of the ghost model)']
SQL = 'SQLite transaction model with bodies in stubs/sqlite_model.h (six exec literals interpreted on ghost state; step counts writes; all calls may fail); cif_loop_get_category by assumed contract'


def jobs():
    T = ['pktitr.c']
    return [
        Job('remove_packet', 'pktitr_h.c', entry='harness_remove_packet', enforce='cif_pktitr_remove_packet', replace=['cif_loop_get_category'], tus=T,
            reach=['removed-scalar', 'removed', 'misuse', 'rolled-back'], min_obligations=30, timeout=1200, mem_gb=24, replay=False, trusted=[SQL],
            clauses=['INVALID_HANDLE when no transaction is open', 'MISUSE when no packet was delivered or it was just removed, nothing written',
                     'success => previous_row_num == -1 for scalar and ordinary loops alike', 'failure => nothing durable, savepoint rolled back, enclosing transaction intact']),
        Job('update_packet_guards', 'pktitr_h.c', entry='harness_update_packet', enforce='cif_pktitr_update_packet', tus=T, unwind=3,
            note='--unwind 3 with unwinding assertions: the packet has at most one entry and the name set is empty, so the uthash iteration provably runs at most once and HASH_FIND does not descend',
            reach=['updated', 'misuse', 'wrong-loop'], min_obligations=30, timeout=1200, mem_gb=24, replay=False, trusted=[SQL],
            clauses=['INVALID_HANDLE / MISUSE guards before any write', 'an item foreign to the loop is refused, nothing written', 'failure leaves the enclosing transaction and its savepoints as they were (C05)']),
        Job('close', 'pktitr_h.c', entry='harness_close', enforce='cif_pktitr_close', tus=T, reach=['closed', 'close-failed'], min_obligations=20, timeout=900, replay=False, trusted=[SQL],
            clauses=['COMMIT attempted exactly once; success => all writes durable, transaction closed', 'failure => ROLLBACK attempted, nothing durable', 'iterator freed on every path']),
        Job('abort', 'pktitr_h.c', entry='harness_abort', enforce='cif_pktitr_abort', tus=T, reach=['aborted', 'abort-failed'], min_obligations=20, timeout=900, replay=False, trusted=[SQL],
            clauses=['ROLLBACK attempted exactly once, never a COMMIT; success => writes lost, transaction closed', 'iterator freed on every path']),
    ]


PENDING = ()


def check(tier):
    import os
    return vlib.run_property('C06', [j for j in jobs() if j.name not in PENDING or os.environ.get('VERIF_JOBS')], tier, LEVEL, UNDECIDED)
