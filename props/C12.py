"""C12 - each class of input defect is reported with its code and recovered as documented (lexical part)."""
import vlib
from vlib import Job

LEVEL = ('Contracts on the scanner functions built around SCAN_UCHAR, loops closed by invariants, the error callback ending in a monitor: for every buffer content and '
         'state, a character the CIF version in force does not allow is reported as CIF_DISALLOWED_CHAR when it is consumed, an unpaired surrogate as CIF_INVALID_CHAR '
         'and replaced, and nothing is reported that the text does not justify; the result is CIF_OK, the callback\'s first non-zero answer or a defined error code.')
UNDECIDED = ['every defect class above the lexical level (missing values, duplicate names, unterminated constructs, table keys, frames, loops): the recovery table of '
             'parse_container / parse_loop / parse_list / parse_table is not under a C12 contract (C15 covers their skip accounting only)',
             'that the recovered CIF is exactly what the recovery table prescribes (stored content is SQL)',
             'line / column attached to a report; over-length line reports (HANDLE_EOL)',
             'the unit immediately preceding a buffer refill (the contract of get_more_chars does not describe buffer content)',
             'scanner functions other than those listed under functions']
GMC = 'get_more_chars as a callee by the contract enforced in C08 (contracts/parser_buf.h), assumed beyond the buffer bound of that job; character source by assumed contract'


def jobs():
    R = ['get_more_chars', 'stub_read_func']
    return [
        Job('scan_to_eol', 'parser_scan_h.c', entry='harness_scan_to_eol', enforce='scan_to_eol', replace=R, tus=['parser.c'], defines={'MAXBUF': 16}, thorough_defines={'MAXBUF': 48},
            loops=2, reach=['recovered', 'clean', 'rejected', 'unpaired-surrogate', 'disallowed', 'refilled'], min_obligations=40, timeout=1500, mem_gb=24, replay=False, trusted=[GMC],
            flags=['--sat-solver', 'cadical'],
            clauses=['disallowed unit => CIF_DISALLOWED_CHAR at that unit when consumed (all 65536 unit values, CIF 1.1 and 2.0 tables)', 'unpaired lead / trail surrogate => CIF_INVALID_CHAR, replaced',
                     'no report without a defect at the reported text', 'text pointer inside the buffer for the stated length, line >= 1', 'result protocol', 'token ends at EOL or end of input']),
    ]


def check(tier):
    return vlib.run_property('C12', jobs(), tier, LEVEL, UNDECIDED)
