"""C12 - each class of input defect is reported with its code and recovered as documented (lexical part)."""
import vlib
from vlib import Job

LEVEL = ('Contracts on the scanner functions built around SCAN_UCHAR, loops closed by invariants, the error callback ending in a monitor: for every buffer content and '
         'state, a character the CIF version in force does not allow is reported as CIF_DISALLOWED_CHAR when it is consumed, an unpaired surrogate as CIF_INVALID_CHAR '
         'and replaced, and nothing is reported that the text does not justify; the result is CIF_OK, the callback\'s first non-zero answer or a defined error code.')
UNDECIDED = ['every defect class above the lexical level (missing values, duplicate names, unterminated constructs, table keys, frames, loops): the recovery table of '
             'parse_container / parse_loop / parse_list / parse_table is not under a C12 contract (C15 covers their skip accounting only)',
             'that the recovered CIF is exactly what the recovery table prescribes (stored content is SQL)',
             'line / column attached to a report; over-length line reports (HANDLE_EOL)',
             'the unit immediately preceding a buffer refill (the contract of get_more_chars does not describe buffer content)',
             'scanner functions other than those listed under functions']
GMC = 'get_more_chars as a callee by the contract enforced in C08 (contracts/parser_buf.h), assumed beyond the buffer bound of that job; character source by assumed contract'


def jobs():
    B = ('SCN (2 quick / 3 thorough) units of input with arbitrary content - every 16-bit value per unit, CIF 1.1 and CIF 2.0 class tables, every accept / reject answer of the callback; '
         'the input ends with the buffer; all loops unwound completely')
    common = dict(tus=['parser.c'], plain=True, no_loop_contracts=True, concretize=False, defines={'SCN': 2}, thorough_defines={'SCN': 3}, unwind=5, unwindset=['setup.%d:200' % k for k in range(8)], text_ui=True, min_obligations=40, timeout=1200, mem_gb=24,
                  bounded=B, trusted=['reference bodies of u_memchr / u_memmove (stubs/icu_prims.h); the specification of the character rules in the harness (written from CIF 2.0 / 1.1)'])
    C = ['a disallowed unit among the consumed units => CIF_DISALLOWED_CHAR reported at that unit', 'unpaired lead / trail surrogate => CIF_INVALID_CHAR, trail replaced',
         'surrogate pair encoding a noncharacter => two-unit CIF_DISALLOWED_CHAR', 'no report that the original text does not justify', 'text pointer inside the buffer for the stated length, line >= 1',
         'result = CIF_OK or the first non-zero answer; no callback after a rejecting one']
    js = [
        Job('scan_to_eol_bounded', 'parser_scanb_h.c', entry='harness_scan_to_eol_b', functions=['scan_to_eol', 'get_more_chars'], reach=['recovered', 'clean', 'rejected-eol'], clauses=C + ['comment ends at EOL / end of input'], **common),
        Job('scan_to_ws_bounded', 'parser_scanb_h.c', entry='harness_scan_to_ws_b', functions=['scan_to_ws', 'get_more_chars'], reach=['recovered', 'clean', 'rejected-ws'], clauses=C + ['token ends at whitespace / end of input'], **common),
        Job('scan_unquoted_bounded', 'parser_scanb_h.c', entry='harness_scan_unquoted_b', functions=['scan_unquoted', 'get_more_chars'], reach=['recovered', 'clean', 'rejected-unq'], clauses=C, **common),
    ]
    for j in js:
        j.thorough_unwind = 5
    h = dict(common); h.update(defines={'SCN': 7}, thorough_defines={'SCN': 7}, unwind=9, bounded='tokens of seven units: five drawn from the letters of data_ / save_ (either case) or x, two from [ { ] } q blank; CIF 2.0 table; complete unwinding')
    js.append(Job('scan_unquoted_header', 'parser_scanb_h.c', entry='harness_scan_unquoted_header', functions=['scan_unquoted', 'get_more_chars'], reach=['bracket-in-header', 'missing-space'],
                  clauses=['opening bracket after an unquoted value => CIF_MISSING_SPACE unless the token is a data_ / save_ header (keyword complete)', 'recovery: value ends before the bracket'], **h))
    return js


def check(tier):
    return vlib.run_property('C12', jobs(), tier, LEVEL, UNDECIDED)
