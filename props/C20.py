"""C20 - every result code has its own correct message in cif_errlist."""
import os
import shutil
import tempfile
import vlib
import c20gen

LEVEL = ('Complete proof over a finite domain: the result codes are extracted from the comment-stripped cif.h of /repo on '
         'every run; for each one CBMC proves, on the real table of cif.c, that the code is below cif_nerr, that its slot is '
         'non-empty and contains the keyword(s) naming that condition, and that no two codes share a message. '
         'The table is a constant initialiser, so every loop has a constant bound and is unwound completely '
         '(unwinding assertions on): no input, no bound on anything the property quantifies over.')


def check(tier):
    gen = tempfile.mkdtemp(prefix='cifv_c20_')
    try:
        try:
            codes = c20gen.extract_codes(os.path.join(vlib.REPO, 'src', 'cif.h'))
        except (c20gen.ExtractError, OSError) as e:
            print('UNDECIDED property=C20 reason=extraction: %s' % e)
            return 2
        h = os.path.join(gen, 'errlist.c')
        n = c20gen.gen_harness(codes, h)
        job = vlib.Job('errlist_table', h, enforce=None, tus=['cif.c'], unwind=82, bounded=None,
                       timeout=600, mem_gb=8, min_obligations=3 * n, reach=['end'], functions=['cif_errlist (table)', 'cif_nerr'],
                       no_loop_contracts=True, replay='noinput',
                       note='%d result codes extracted from cif.h this run; loops range over the constant 80-byte rows only '
                            '(--unwind 82 with unwinding assertions = complete unwinding, not a bound on inputs)' % n,
                       clauses=['code < cif_nerr', 'message non-empty', 'message names the condition (keyword table)',
                                'messages pairwise distinct'],
                       trusted=['keyword table in lib/c20gen.py (written from the @brief texts of cif.h)'])
        return vlib.run_property('C20', [job], tier, LEVEL, [])
    finally:
        shutil.rmtree(gen, ignore_errors=True)
