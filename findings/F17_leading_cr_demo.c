/* F17: an input whose first character is CR loses everything get_first_char() read with it */
#include <stdio.h>
#include <string.h>
#include <unicode/ustring.h>
#include "cif.h"
static int nerr = 0;
static int err(int code, size_t line, size_t col, const UChar *t, size_t len, void *d) { nerr++; printf("  error %d at line %zu\n", code, line); return 0; }
static int count_blocks(const char *text) {
    cif_tp *cif = NULL; FILE *f = tmpfile(); struct cif_parse_opts_s *o; cif_container_tp **blocks; int n = 0;
    fputs(text, f); rewind(f);
    if (cif_parse_options_create(&o)) return -1;
    o->error_callback = err;
    if (cif_parse(f, o, &cif) != CIF_OK) return -2;
    if (cif_get_all_blocks(cif, &blocks) != CIF_OK) return -3;
    while (blocks[n]) n++;
    return n;
}
int main(void) {
    int a = count_blocks("\ndata_a\n_x 1\n");      /* LF style */
    int b = count_blocks("\rdata_a\r_x 1\r");      /* CR style, same document */
    printf("blocks with LF terminators: %d, with CR terminators: %d, errors %d\n", a, b, nerr);
    return (a == 1 && b == 1 && nerr == 0) ? 0 : 1;
}
