/* F14: a stream carrying a Unicode signature (BOM) and no version comment must be parsed as CIF 2.0 when prefer_cif2 > 0 */
#include <stdio.h>
#include <string.h>
#include <unicode/ustring.h>
#include "cif.h"
static int nerr = 0;
static int err(int code, size_t line, size_t col, const UChar *t, size_t len, void *d) { nerr++; printf("  error callback: code %d line %zu\n", code, line); return 0; }
int main(void) {
    cif_tp *cif = NULL; FILE *f = tmpfile(); struct cif_parse_opts_s *o;
    fputs("\xEF\xBB\xBF" "data_x\n_a [1 2]\n", f); rewind(f);
    cif_parse_options_create(&o); o->prefer_cif2 = 1; o->error_callback = err;
    int rc = cif_parse(f, o, &cif);
    cif_container_tp *b = NULL; cif_value_tp *v = NULL; UChar name[] = {'x', 0}; UChar item[] = {'_', 'a', 0};
    cif_get_block(cif, name, &b);
    int rv = b ? cif_container_get_value(b, item, &v) : -1;
    int is_list = (rv == CIF_OK && cif_value_kind(v) == CIF_LIST_KIND);
    printf("parse rc=%d errors=%d, _a is %s\n", rc, nerr, is_list ? "a list (CIF 2.0 rules)" : "not a list (CIF 1.1 rules)");
    return (is_list && nerr == 0) ? 0 : 1;
}
