/* F1: one stale code unit per buffer fill that contains a CR LF pair */
#include <stdio.h>
#include <string.h>
#include <unicode/ustring.h>
#include "cif.h"
int main(void) {
    cif_tp *cif = NULL; FILE *f = tmpfile(); cif_container_tp *b = NULL; cif_value_tp *v = NULL; UChar *t = NULL;
    UChar code[] = {'a', 0}, name[] = {'_', 'z', 0}; char buf[16];
    fputs("data_a\r\n_x 1\n_y abc\n_z 5", f); rewind(f);
    if (cif_parse(f, NULL, &cif) || cif_get_block(cif, code, &b) || cif_container_get_value(b, name, &v) || cif_value_get_text(v, &t)) return 2;
    u_austrcpy(buf, t);
    printf("_z = '%s' (expected '5')\n", buf);
    return strcmp(buf, "5") ? 1 : 0;
}
