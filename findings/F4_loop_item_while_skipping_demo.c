/* F4: handle_item is delivered for loop values although packet_start answered CIF_TRAVERSE_SKIP_CURRENT */
#include <stdio.h>
#include <string.h>
#include <unicode/ustring.h>
#include "cif.h"
static int items = 0;
static int pstart(cif_packet_tp *p, void *d) { return CIF_TRAVERSE_SKIP_CURRENT; }
static int item(UChar *n, cif_value_tp *v, void *d) { items++; return CIF_TRAVERSE_CONTINUE; }
int main(void) {
    cif_tp *cif = NULL; FILE *f = tmpfile(); struct cif_parse_opts_s *o; cif_handler_tp h;
    fputs("#\\#CIF_2.0\ndata_a\nloop_ _x _y 1 2 3 4\n", f); rewind(f);
    if (cif_parse_options_create(&o)) return 2;
    memset(&h, 0, sizeof h); h.handle_packet_start = pstart; h.handle_item = item; o->handler = &h;
    int rc = cif_parse(f, o, &cif);
    printf("rc=%d, item callbacks for skipped packets: %d (expected 0)\n", rc, items);
    return items == 0 && rc == 0 ? 0 : 1;
}
