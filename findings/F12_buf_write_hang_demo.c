/* F12: storing a list/table whose serialised form exceeds 1.5x the initial buffer capacity never returns (cif_buf_write) */
#include <stdio.h>
#include <stdlib.h>
#include <signal.h>
#include <unistd.h>
#include <unicode/ustring.h>
#include "cif.h"
static void on_alarm(int s) { printf("cif_container_set_value did not return within 5 s (infinite growth loop)\n"); _exit(1); }
int main(void) {
    cif_tp *cif = NULL; cif_container_tp *b = NULL; cif_value_tp *list = NULL, *el = NULL, *back = NULL;
    UChar code[] = {'b', 0}, name[] = {'_', 'l', 0}; static UChar big[601];
    for (int i = 0; i < 600; i++) big[i] = 'x';
    signal(SIGALRM, on_alarm); alarm(5);
    if (cif_create(&cif) || cif_create_block(cif, code, &b)) return 2;
    if (cif_value_create(CIF_LIST_KIND, &list) || cif_value_create(CIF_UNK_KIND, &el) || cif_value_copy_char(el, big)) return 2;
    if (cif_value_insert_element_at(list, 0, el)) return 2;
    int rc = cif_container_set_value(b, name, list);
    size_t n = 0; int rc2 = cif_container_get_value(b, name, &back); if (!rc2) cif_value_get_element_count(back, &n);
    printf("set_value rc=%d, read back rc=%d with %zu element(s)\n", rc, rc2, n);
    return (rc == 0 && rc2 == 0 && n == 1) ? 0 : 1;
}
