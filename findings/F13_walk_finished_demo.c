#include <stdio.h>
#include <string.h>
#include <unicode/ustring.h>
#include "cif.h"
static int n_after = 0, fired = 0;
static int item(UChar *name, cif_value_tp *v, void *ctx) { if (fired) { n_after++; return 0; } fired = 1; return CIF_FINISHED; /* positive code 1 */ }
static int loop_end(cif_loop_tp *l, void *ctx) { if (fired) n_after++; return 0; }
static int block_end(cif_container_tp *l, void *ctx) { if (fired) n_after++; return 0; }
int main(void) {
    cif_tp *cif = NULL; FILE *f = tmpfile();
    fputs("#\\#CIF_2.0\ndata_a\nloop_ _x _y 1 2 3 4\ndata_b _z 5\n", f); rewind(f);
    int rc = cif_parse(f, NULL, &cif); if (rc) { printf("parse rc=%d\n", rc); return 2; }
    cif_handler_tp h; memset(&h, 0, sizeof h); h.handle_item = item; h.handle_loop_end = loop_end; h.handle_block_end = block_end;
    rc = cif_walk(cif, &h, NULL);
    printf("cif_walk returned %d, callbacks after the handler returned 1: %d\n", rc, n_after);
    return (rc == 1 && n_after == 0) ? 0 : 1;
}
