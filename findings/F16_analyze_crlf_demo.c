/* F16: cif_analyze_string reports length_first == 0 for a string whose first line ends in CR LF */
#include <stdio.h>
#include <unicode/ustring.h>
#include "cif.h"
int main(void) {
    UChar s[] = { 'a', 'b', 0x0D, 0x0A, 'c', 0 };
    struct cif_string_analysis_s a;
    if (cif_analyze_string(s, 1, 1, 2048, &a) != CIF_OK) return 2;
    printf("num_lines=%d length_first=%d (expected 2)\n", a.num_lines, a.length_first);
    return a.length_first == 2 ? 0 : 1;
}
