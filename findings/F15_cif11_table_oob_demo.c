/* F15: cif_validate_cif11_characters indexes its 128-entry table with code units up to 511 (sizeof in bytes used as element count) */
#include <stdio.h>
#include "config.h"
#include "cif.h"
#include "internal/utils.h"
int main(void) {
    UChar s[] = { 'a', 0x01FF, 0 };   /* U+01FF is not a CIF 1.1 character */
    UChar *bad = NULL;
    int r = cif_validate_cif11_characters(s, &bad);
    printf("result %d (expected %d = CIF_DISALLOWED_CHAR)\n", r, CIF_DISALLOWED_CHAR);
    return r == CIF_DISALLOWED_CHAR ? 0 : 1;
}
