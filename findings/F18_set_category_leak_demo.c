/* F18 demonstration: cif_loop_set_category() leaks its copy of the new category when the statement cannot be prepared.
 * sqlite3_prepare_v2 is wrapped (-Wl,--wrap) to fail once for the "set category" statement; LeakSanitizer reports the copy.
 * build: see findings/F18_set_category_leak_demo.c trailer */
#include <stdio.h>
#include <string.h>
#include <sqlite3.h>
#include <unicode/ustring.h>
#include "cif.h"
int fail_next = 0;
int __real_sqlite3_prepare_v2(sqlite3 *db, const char *sql, int n, sqlite3_stmt **st, const char **tail);
int __wrap_sqlite3_prepare_v2(sqlite3 *db, const char *sql, int n, sqlite3_stmt **st, const char **tail) {
    if (fail_next && strstr(sql, "category") != NULL && strncmp(sql, "update", 6) == 0) { fail_next = 0; *st = NULL; return SQLITE_NOMEM; }
    return __real_sqlite3_prepare_v2(db, sql, n, st, tail);
}
int main(void) {
    cif_tp *cif = NULL; cif_block_tp *b = NULL; cif_loop_tp *loop = NULL;
    UChar code[] = { 'b', 0 }, n1[] = { '_', 'a', 0 }, cat[] = { 'c', 'a', 't', 0 };
    UChar *names[] = { n1, NULL };
    if (cif_create(&cif) != CIF_OK || cif_create_block(cif, code, &b) != CIF_OK || cif_container_create_loop(b, NULL, names, &loop) != CIF_OK) return 2;
    fail_next = 1;
    int r = cif_loop_set_category(loop, cat);
    printf("cif_loop_set_category with a failing prepare -> %d (CIF_ERROR = %d)\n", r, CIF_ERROR);
    cif_loop_free(loop); cif_container_free(b); cif_destroy(cif);
    return 0;   /* LeakSanitizer: 8 bytes allocated by cif_u_strdup from cif_loop_set_category are never freed */
}
/* build + run (pristine: LeakSanitizer reports 8 bytes from cif_u_strdup <- cif_loop_set_category; with the fix: clean):
 *   clang -g -fsanitize=address -w -DHAVE_CONFIG_H -I/repo/src -I/repo -I/repo/uthash findings/F18_set_category_leak_demo.c /repo/src/*.c \
 *         -Wl,--wrap=sqlite3_prepare_v2 -o /tmp/f18demo -licuuc -licuio -licui18n -lsqlite3 -lm && ASAN_OPTIONS=detect_leaks=1 /tmp/f18demo */
