#!/usr/bin/env python3
"""Runner for the contract-based checks (DESIGN.md section 3).

One *job* = one function of /repo enforced against its contract by
  goto-cc -> goto-instrument --dfcc ... --enforce-contract F --replace-call-with-contract G...
          --apply-loop-contracts -> cbmc
on a harness translation unit that #includes the (mechanically loop-annotated) real source
file.  A property's check runs all its jobs in parallel, classifies the outcome, replays
counterexamples natively where the harness supports it and writes evidence/<id>.json.
"""
import concurrent.futures
import json
import os
import re
import resource
import shutil
import subprocess
import sys
import tempfile
import time

sys.path.insert(0, os.path.dirname(os.path.abspath(__file__)))
import annotate  # noqa: E402

VERIF = os.path.dirname(os.path.dirname(os.path.abspath(__file__)))
REPO = os.environ.get('VERIF_REPO', '/repo')
TUS = ['cif.c', 'ciffile.c', 'container.c', 'loop.c', 'map.c', 'packet.c', 'parser.c',
       'pktitr.c', 'utils.c', 'value.c']


# dfcc does not track the locals / parameters of CBMC's own C-library models (memcmp, strcmp, ...) in the caller's write set:
# their frame checks fail for every caller.  They concern CBMC's model code, not /repo, and are excluded everywhere (listed in evidence).
LIB_ARTEFACTS = [(r'^(memcmp|strcmp|strncmp|strlen|memchr|strchr)\.assigns\.\d+ Check that \w+ is assignable',
                  'frame check inside CBMC\'s built-in C library model (not /repo code); dfcc does not add the model\'s locals to the write set')]


class Undecided(Exception):
    """Tool limit / extraction failure / timeout: exit 2, never a verdict."""


DEFAULT_SAT = os.environ.get('VERIF_SAT', 'cadical')


class Job:
    def __init__(self, name, harness, enforce=None, rec=False, replace=(), tus=(),
                 defines=None, thorough_defines=None, flags=(), unwind=None, bounded=None,
                 timeout=600, mem_gb=8, min_obligations=1, loops=0, reach=(),
                 functions=None, note='', tiers=('quick', 'thorough'), replay=True,
                 object_bits=12, unwindset=(), no_loop_contracts=False, extra_cc=(),
                 entry='harness', trusted=(), clauses=(), concretize=None, tool_artefacts=(), add_library=False, plain=False, text_ui=False):
        self.name = name
        self.harness = harness            # path relative to /verif/harness
        self.enforce = enforce            # function whose contract is enforced (None: plain harness assertions)
        self.rec = rec
        self.replace = list(replace)      # callees replaced by their contracts
        self.tus = list(tus)              # translation units of /repo included by the harness
        self.defines = dict(defines or {})
        self.thorough_defines = dict(thorough_defines or {})
        self.flags = list(flags)          # extra cbmc flags
        self.unwind = unwind              # None => no unwinding limit needed (all loops closed by contracts or none)
        self.bounded = bounded            # None => unbounded proof; else text describing the bound
        self.timeout = timeout
        self.mem_gb = mem_gb
        self.min_obligations = min_obligations
        self.loops = loops                # number of loop contracts that must show up as loop_invariant_base obligations
        self.reach = list(reach)          # REACH tags that must be reachable (assert(0) that must FAIL)
        self.functions = functions if functions is not None else ([enforce] if enforce else [])
        self.note = note
        self.tiers = tiers
        self.replay = replay
        self.object_bits = object_bits
        self.unwindset = list(unwindset)
        self.thorough_unwind = None       # optional: a larger --unwind for the thorough tier (set after construction)
        self.no_loop_contracts = no_loop_contracts
        self.extra_cc = list(extra_cc)
        self.entry = entry
        self.trusted = list(trusted)      # assumptions specific to this job (stubs, assumed contracts)
        self.clauses = list(clauses)      # human-readable clauses this job decides
        # counterexample concretisation (search only, never the deciding step): defines/unwind for a bounded
        # re-run of the same harness WITHOUT loop contracts, so that a trace is a real execution
        # (regex, reason): obligations that CBMC's dfcc instrumentation cannot discharge for a documented tool reason; they are
        # reported separately in the evidence, are NOT counted as discharged, and never raise an alarm
        self.tool_artefacts = list(tool_artefacts)
        self.plain = plain                # bounded jobs without contracts: run cbmc on the goto-cc output directly (no dfcc instrumentation)
        self.text_ui = text_ui            # parse cbmc's plain-text results (work-around for a --json-ui abort of cbmc 6.11 on some programs)
        self.add_library = add_library    # link CBMC's C library models before dfcc so that they are instrumented too
        self.concretize = concretize      # None => {'MAXN': min(MAXN, 8)}, unwind MAXN+2; False => off


def log(msg):
    sys.stderr.write(msg + '\n')
    sys.stderr.flush()


def ensure_generated_headers():
    """config.h / internal/schema.h / internal/version.h are build products of /repo.
    Use /repo's when present, else generate them out of tree under /verif/.cfg."""
    inc = []
    need = [os.path.join(REPO, 'config.h'), os.path.join(REPO, 'src/internal/schema.h'),
            os.path.join(REPO, 'src/internal/version.h')]
    if all(os.path.exists(p) for p in need):
        return inc
    cfg = os.path.join(VERIF, '.cfg')
    if not os.path.exists(os.path.join(cfg, 'src/internal/schema.h')):
        os.makedirs(cfg, exist_ok=True)
        r = subprocess.run('%s/configure >/dev/null 2>&1 && make -C src internal/schema.h internal/version.h >/dev/null 2>&1'
                           % REPO, shell=True, cwd=cfg)
        if r.returncode != 0:
            raise Undecided('cannot generate config.h/schema.h')
    return ['-I' + cfg, '-I' + os.path.join(cfg, 'src')]


def make_scratch(tus, warn, only_functions=None):
    """Annotated copies of the needed TUs in a fresh scratch dir."""
    d = tempfile.mkdtemp(prefix='cifv_')
    applied = {}
    for tu in tus:
        src = os.path.join(REPO, 'src', tu)
        if not os.path.exists(src):
            raise Undecided('missing source %s' % src)
        text = open(src).read()
        recs = annotate.parse_loops_file(os.path.join(VERIF, 'contracts', tu.replace('.c', '.loops')))
        try:
            out, n = annotate.annotate_text(text, recs, only_functions=only_functions, warn=warn)
        except annotate.ExtractionError as e:
            shutil.rmtree(d, ignore_errors=True)
            raise Undecided('extraction broken in %s: %s' % (tu, e))
        open(os.path.join(d, tu), 'w').write(out)
        applied[tu] = n
    return d, applied


def run(cmd, timeout, mem_gb=None, cwd=None, stdout=None):
    def lim():
        if mem_gb:
            b = int(mem_gb * (1 << 30))
            resource.setrlimit(resource.RLIMIT_AS, (b, b))
        os.setsid()
    t0 = time.time()
    try:
        p = subprocess.run(cmd, cwd=cwd, stdout=stdout or subprocess.PIPE, stderr=subprocess.STDOUT,
                           timeout=timeout, preexec_fn=lim)
        out = p.stdout.decode('utf-8', 'replace') if p.stdout is not None else ''
        return p.returncode, out, time.time() - t0
    except subprocess.TimeoutExpired as e:
        return -999, (e.stdout or b'').decode('utf-8', 'replace') if e.stdout else '', time.time() - t0


def parse_cbmc_json(text):
    """Return (results list, messages list, status string)."""
    try:
        data = json.loads(text)
    except Exception:
        # try to cut trailing garbage
        i = text.rfind(']')
        try:
            data = json.loads(text[:i + 1])
        except Exception:
            return None, [text[-2000:]], 'PARSE_ERROR'
    results, msgs, status = [], [], None
    for e in data:
        if isinstance(e, dict):
            if 'result' in e:
                results = e['result']
            if 'messageText' in e:
                msgs.append(e['messageText'])
            if 'cProverStatus' in e:
                status = e['cProverStatus']
    return results, msgs, status


def parse_cbmc_text(text):
    """Fallback for jobs where `cbmc --json-ui` aborts (cbmc 6.11 internal error while printing): parse the plain-text result list."""
    results, cur_file, cur_fn = [], '', ''
    for ln in text.split('\n'):
        m = re.match(r'^(\S+) function (\S+)$', ln.strip())
        if m:
            cur_file, cur_fn = m.group(1), m.group(2)
            continue
        m = re.match(r'^\[(.+?)\] (?:line (\d+) )?(.*): (SUCCESS|FAILURE|UNKNOWN|ERROR)$', ln.strip())
        if m:
            results.append({'property': m.group(1), 'description': m.group(3), 'status': m.group(4),
                            'sourceLocation': {'file': cur_file, 'line': m.group(2) or '', 'function': cur_fn}})
    status = 'success' if 'VERIFICATION SUCCESSFUL' in text else ('failure' if 'VERIFICATION FAILED' in text else None)
    return results, [text[-3000:]], status


def val_to_c(v):
    """CBMC json value -> C initialiser text (ints, arrays, structs; pointers -> 0)."""
    if 'members' in v:
        return '{' + ', '.join('.%s = %s' % (m['name'], val_to_c(m['value']))
                               for m in v['members'] if not m['name'].startswith('$pad')) + '}'
    if 'elements' in v:
        return '{' + ', '.join(val_to_c(e['value']) for e in v['elements']) + '}'
    name = v.get('name')
    if name == 'integer' or name == 'boolean':
        if 'binary' in v:
            b = v['binary']
            w = len(b)
            x = int(b, 2)
            t = v.get('type', '')
            signed = not ('unsigned' in t or 'size_t' in t or 'UChar' in t or 'uint' in t or t == '_Bool')
            if signed and b[0] == '1' and 'char' not in t.replace('UChar', ''):
                x -= 1 << w
            if signed and 'char' in t and b[0] == '1':
                x -= 1 << w
            if x < 0:
                return '(%d)' % x
            return '%d%s' % (x, 'ULL' if w > 32 else ('U' if not signed else ''))
        return '1' if v.get('data') in ('true', '1') else '0'
    if name == 'float' or name == 'double':
        return v.get('data', '0')
    if name == 'pointer':
        return '0 /* pointer %s */' % v.get('data', '')
    if name == 'unknown':
        return '0'
    return '0'


def extract_inputs(trace):
    """Value of the harness variable `in` (see harness/common.h): the whole-object assignment overlaid with the
    later whole-member assignments `in.<member> = ...` that CBMC reports for a nondet struct."""
    base = None
    for s in trace:
        if s.get('stepType') != 'assignment' or 'value' not in s:
            continue
        lhs = s.get('lhs', '')
        if lhs == 'in' and 'members' in s['value']:
            base = json.loads(json.dumps(s['value']))
        elif base is not None and lhs.startswith('in.') and re.match(r'^in\.[A-Za-z_0-9]+$', lhs):
            name = lhs[3:]
            for m in base['members']:
                if m['name'] == name:
                    m['value'] = s['value']
    return base


class JobResult:
    def __init__(self, job):
        self.job = job
        self.status = None          # 'discharged' | 'failed' | 'undecided'
        self.reason = ''
        self.obligations = 0
        self.discharged = 0
        self.failed = []            # list of dicts {property, description, location}
        self.artefacts = []         # obligations excluded as documented tool artefacts
        self.reach_ok = []
        self.solver_s = 0.0
        self.wall_s = 0.0
        self.peak_note = ''
        self.samples = []
        self.replay_path = None
        self.replay_confirmed = False
        self.loop_obligs = 0
        self.cmdline = ''
        self.warnings = []
        self.log_tail = ''


def is_local_of(scratch, tus, fn, ident):
    """True iff `ident` is declared inside the body of function `fn` (a block-scope variable) in one of the scratch TUs."""
    for tu in tus:
        try:
            text = open(os.path.join(scratch, tu)).read()
            stripped = annotate.strip_comments_strings(text)
            lo, hi = annotate.find_function(stripped, fn)
        except Exception:
            continue
        body = stripped[lo:hi]
        if re.search(r'[\w\*\)]\s+\**%s\s*(=|;|,|\[)' % re.escape(ident), body) and not re.search(r'\bstatic\b[^;]*\b%s\b' % re.escape(ident), body):
            return True
        # block-scope variable declared inside a function-like macro that the function expands (e.g. `int _i;` in INIT_V2_SCANNER)
        for ln in text.split('\n'):
            if ln.rstrip().endswith('\\') and re.search(r'^\s*(const\s+)?[A-Za-z_][\w ]*[\s\*]+\**%s\s*(=|;)' % re.escape(ident), ln) and 'static' not in ln:
                return True
    return False


def cc_base(inc_extra, scratch):
    return ['goto-cc', '-DHAVE_CONFIG_H', '-DCIF_API_VERIF', '-I' + scratch, '-I' + os.path.join(VERIF, 'contracts'),
            '-I' + os.path.join(VERIF, 'stubs'), '-I' + os.path.join(VERIF, 'harness')] + inc_extra + \
           ['-I' + REPO, '-I' + os.path.join(REPO, 'src'), '-I' + os.path.join(REPO, 'uthash')]


def run_job(job, tier, inc_extra, keep_dir=None):
    res = JobResult(job)
    t0 = time.time()
    warns = []
    try:
        scratch, applied = make_scratch(job.tus, warns.append, set(job.functions))
    except Undecided as e:
        res.status, res.reason = 'undecided', str(e)
        return res
    res.warnings = warns
    try:
        defs = dict(job.defines)
        if tier == 'thorough':
            defs.update(job.thorough_defines)
        dflags = ['-D%s=%s' % (k, v) if v is not None else '-D%s' % k for k, v in defs.items()]
        h = os.path.join(VERIF, 'harness', job.harness)
        a, b = os.path.join(scratch, 'a.gb'), os.path.join(scratch, 'b.gb')
        cmd = cc_base(inc_extra, scratch) + dflags + job.extra_cc + ['--function', job.entry, h, '-o', a]
        rc, out, _ = run(cmd, 300)
        if rc != 0:
            res.status, res.reason, res.log_tail = 'undecided', 'goto-cc failed', out[-3000:]
            return res
        if job.plain:
            b = a
            gi = ['(no goto-instrument: plain bounded check)', a, b]
            gi_out = ''
        if job.add_library and not job.plain:
            a2 = os.path.join(scratch, 'a2.gb')
            rc, out, _ = run(['goto-instrument', '--add-library', a, a2], 300)
            if rc != 0:
                res.status, res.reason, res.log_tail = 'undecided', 'goto-instrument --add-library failed', out[-3000:]
                return res
            a = a2
        gi = ['goto-instrument'] + (['--no-malloc-may-fail'] if '--no-malloc-may-fail' in job.flags else []) + ['--dfcc', job.entry]   # dfcc links (and constant-folds) the malloc model here
        if job.enforce:
            gi += ['--enforce-contract-rec' if job.rec else '--enforce-contract', job.enforce]
        for g in job.replace:
            gi += ['--replace-call-with-contract', g]
        if not job.no_loop_contracts:
            gi += ['--apply-loop-contracts']
        gi += [a, b]
        if not job.plain:
            rc, out, _ = run(gi, 600, mem_gb=job.mem_gb)
            if rc != 0:
                res.status, res.reason, res.log_tail = 'undecided', 'goto-instrument failed', out[-3000:]
                return res
            gi_out = out
        cb = ['cbmc', b] + ([] if job.text_ui else ['--json-ui']) + list(job.flags)
        if '--sat-solver' not in job.flags:
            cb += ['--sat-solver', DEFAULT_SAT]   # measured on the C14 / C05 / C06 jobs: cadical is 2-9x faster than the built-in minisat2
        unw = job.thorough_unwind if (tier == 'thorough' and getattr(job, 'thorough_unwind', None)) else job.unwind
        if unw is not None:
            cb += ['--unwind', str(unw), '--unwinding-assertions']
        for u in job.unwindset:
            cb += ['--unwindset', u]
        if job.unwindset and job.unwind is None and '--no-unwinding-assertions' not in job.flags:
            cb += ['--unwinding-assertions']
        res.cmdline = ' '.join(os.path.basename(x) if x.startswith('/tmp') else x for x in gi[:-2]) + ' ; ' + \
            ' '.join(cb[2:])
        tmo = job.timeout * (3 if tier == 'thorough' else 1)
        ts = time.time()
        # 12 object bits by default: with cbmc's default of 8 a dfcc-instrumented program silently runs out of object numbers
        # (spurious 'deallocated dynamic object' failures, no warning); jobs that need a smaller encoding set object_bits explicitly
        bits = job.object_bits
        while True:
            cbx = cb + (['--object-bits', str(bits)] if bits else [])
            rc, out, dt = run(cbx, tmo, mem_gb=job.mem_gb * (2 if tier == 'thorough' else 1))
            if 'too many addressed objects' in out and (bits or 8) < 14:
                bits = (bits or 8) + 2
                continue
            break
        cb = cbx
        res.solver_s = dt
        if rc == -999:
            res.status, res.reason = 'undecided', 'cbmc timeout after %ds' % tmo
            return res
        results, msgs, status = parse_cbmc_text(out) if job.text_ui else parse_cbmc_json(out)
        if results is None or (not results and status is None):
            res.status, res.reason, res.log_tail = 'undecided', 'cbmc output unparsable / crashed (rc=%s)' % rc, out[-3000:]
            return res
        alltext = '\n'.join(msgs) + gi_out
        for pat in ('ignoring forall', 'ignoring exists', 'no candidates'):
            if pat in alltext:
                res.status, res.reason = 'undecided', 'vacuity guard: "%s" in tool output' % pat
                return res
        if not results:
            res.status, res.reason, res.log_tail = 'undecided', 'no results (status %s)' % status, '\n'.join(msgs)[-3000:]
            return res
        reach_seen = {}
        for r in results:
            desc = r.get('description', '')
            if desc.startswith('REACH '):
                reach_seen[desc[6:]] = r['status']
                continue
            art = None
            mloc = re.match(r'^(\w+)\.assigns\.\d+$', r['property'])
            mid = re.match(r'^Check that (\w+) is assignable$', desc)
            if mloc and mid and is_local_of(scratch, job.tus, mloc.group(1), mid.group(1)):
                art = ('frame check on a block-scope variable of the function itself (%s in %s): writing a local can never violate the '
                       'function\'s frame; dfcc loses track of locals across goto/continue/break edges that leave a loop' % (mid.group(1), mloc.group(1)))
            for rx, why in list(job.tool_artefacts) + LIB_ARTEFACTS:
                if re.search(rx, r['property'] + ' ' + desc):
                    art = why
            if art is not None:
                res.artefacts.append({'property': r['property'], 'description': desc, 'status': r['status'], 'reason': art})
                continue
            res.obligations += 1
            if '.loop_invariant_base' in r['property']:
                res.loop_obligs += 1
            if r['status'] == 'SUCCESS':
                res.discharged += 1
            else:
                sl = r.get('sourceLocation') or {}
                res.failed.append({'property': r['property'], 'description': desc, 'status': r['status'],
                                   'file': os.path.basename(sl.get('file', '')), 'line': sl.get('line', ''),
                                   'function': sl.get('function', '')})
        # sample obligations
        for r in results[:0]:
            pass
        picks = [r for r in results if ('postcondition' in r['property'] or 'assertion' in r['property']
                                        or 'loop_invariant' in r['property']) and not r.get('description', '').startswith('REACH ')]
        for r in (picks[:4] or results[:3]):
            sl = r.get('sourceLocation') or {}
            res.samples.append('%s: %s [%s:%s] %s' % (r['property'], r.get('description', '')[:120],
                                                     os.path.basename(sl.get('file', '')), sl.get('line', ''), r['status']))
        # vacuity guards (only meaningful when nothing failed: a failure is reported as such)
        if not [f for f in res.failed if f['status'] == 'FAILURE']:
            for tag in job.reach:
                st = reach_seen.get(tag)
                if st != 'FAILURE':
                    res.status, res.reason = 'undecided', 'vacuity guard: REACH %s is %s (must be reachable)' % (tag, st)
                    return res
                res.reach_ok.append(tag)
            if res.obligations < job.min_obligations:
                res.status, res.reason = 'undecided', 'vacuity guard: only %d obligations (< %d)' % (res.obligations, job.min_obligations)
                return res
            if res.loop_obligs < job.loops:
                res.status, res.reason = 'undecided', 'vacuity guard: %d loop contracts visible, %d expected' % (res.loop_obligs, job.loops)
                return res
        real_fail = [f for f in res.failed if f['status'] == 'FAILURE' and '.unwind.' not in f['property'] and '.recursion' not in f['property']]
        if res.failed and not real_fail and [f for f in res.failed if f['status'] == 'FAILURE']:
            # only unwinding assertions failed: the bound of this job is too small for the code as it is now - a tool limit, never a verdict
            res.status, res.reason = 'undecided', 'unwinding bound too small: ' + ', '.join(f['property'] for f in res.failed if f['status'] == 'FAILURE')[:200]
            return res
        if res.failed:
            res.status = 'failed'
            # get a trace for the most telling failure
            def prio(f):
                p = f['property']
                if 'postcondition' in p: return 0
                if 'assertion' in p and 'unwind' not in p: return 1
                if 'precondition' in p: return 2
                if 'loop_invariant' in p: return 4
                if 'unwind' in p: return 9
                return 3
            first = sorted(res.failed, key=prio)[0]
            res.first_failed = first
            if keep_dir and not os.environ.get('VERIF_NOTRACE'):
                os.makedirs(keep_dir, exist_ok=True)
                # the trace is wanted as JSON even when the verdict run used the text UI (the JSON UI of cbmc 6.11 dies on some programs: then there is simply no replay input)
                rc2, out2, _ = run(cb + ([] if '--json-ui' in cb else ['--json-ui']) + ['--trace', '--property', first['property']], tmo, mem_gb=job.mem_gb * 2)
                res.trace_json = out2
                plain = []
                r2, m2, s2 = parse_cbmc_json(out2) if rc2 != -999 else (None, [], None)
                res.trace_inputs = None
                if r2:
                    for r in r2:
                        if r['property'] == first['property'] and r.get('trace'):
                            res.trace_inputs = extract_inputs(r['trace'])
                            res.trace_steps = r['trace']
        else:
            res.status = 'discharged'
        return res
    finally:
        res.wall_s = time.time() - t0
        shutil.rmtree(scratch, ignore_errors=True)


def concretize(job, tier, inc_extra):
    """Search for a concrete failing execution: same harness and contract, loop contracts NOT applied,
    loops unwound to a small bound.  Returns (inputs, failed-property dict) or (None, None)."""
    if job.concretize is False:
        return None, None, {}
    defs = dict(job.defines)
    if tier == 'thorough':
        defs.update(job.thorough_defines)
    conc = dict(job.concretize or {})
    unwind = conc.pop('unwind', None)
    if 'MAXN' in defs and 'MAXN' not in conc:
        conc['MAXN'] = min(int(defs['MAXN']), 8)
    defs.update(conc)
    if unwind is None:
        unwind = max(int(defs.get('MAXN', 8)) + 2, 13)
    try:
        scratch, _ = make_scratch(job.tus, lambda w: None, set(job.functions))
    except Undecided:
        return None, None, defs
    try:
        dflags = ['-D%s=%s' % (k, v) if v is not None else '-D%s' % k for k, v in defs.items()]
        h = os.path.join(VERIF, 'harness', job.harness)
        a, b = os.path.join(scratch, 'a.gb'), os.path.join(scratch, 'b.gb')
        rc, out, _ = run(cc_base(inc_extra, scratch) + dflags + job.extra_cc + ['--function', job.entry, h, '-o', a], 300)
        if rc != 0:
            return None, None, defs
        gi = ['goto-instrument'] + (['--no-malloc-may-fail'] if '--no-malloc-may-fail' in job.flags else []) + ['--dfcc', job.entry]   # dfcc links (and constant-folds) the malloc model here
        if job.enforce:
            gi += ['--enforce-contract-rec' if job.rec else '--enforce-contract', job.enforce]
        for g in job.replace:
            gi += ['--replace-call-with-contract', g]
        rc, out, _ = run(gi + [a, b], 600, mem_gb=job.mem_gb)
        if rc != 0:
            return None, None, defs
        cb = ['cbmc', b, '--json-ui', '--trace', '--unwind', str(unwind)] + [f for f in job.flags]
        rc, out, _ = run(cb, max(300, job.timeout), mem_gb=job.mem_gb * 2)
        if rc == -999:
            return None, None, defs
        results, msgs, status = parse_cbmc_json(out)
        if not results:
            return None, None, defs
        cands = [r for r in results if r['status'] == 'FAILURE' and r.get('trace')
                 and not r.get('description', '').startswith('REACH ') and 'unwind' not in r['property']
                 and 'loop_invariant' not in r['property']]
        cands.sort(key=lambda r: 0 if 'postcondition' in r['property'] else (1 if 'assertion' in r['property'] else 2))
        for r in cands:
            inp = extract_inputs(r['trace'])
            if inp is not None:
                sl = r.get('sourceLocation') or {}
                return inp, {'property': r['property'], 'description': r.get('description', ''),
                             'file': os.path.basename(sl.get('file', '')), 'line': sl.get('line', '')}, defs
        return None, None, defs
    finally:
        shutil.rmtree(scratch, ignore_errors=True)


# ----------------------------------------------------------------------------------------
# native replay

REPLAY_LIBS = ['-licuuc', '-licuio', '-licui18n', '-lsqlite3', '-lm']


def write_replay(prop, job, res, tier):
    """Build replays/<prop>/<job>.c from the counterexample and run it natively.
    Returns (path, confirmed, text)."""
    d = os.path.join(VERIF, 'replays', prop)
    os.makedirs(d, exist_ok=True)
    path = os.path.join(d, job.name + '.c')
    first = getattr(res, 'first_failed', res.failed[0])
    hdr = ['/* replay for property %s, job %s' % (prop, job.name),
           ' * failed obligation: %s -- %s' % (first['property'], first['description']),
           ' *   at %s:%s (%s)' % (first['file'], first['line'], first['function']),
           ' * all failed obligations of this job:']
    for f in res.failed[:30]:
        hdr.append(' *   %s %s [%s:%s]' % (f['property'], f['description'][:100], f['file'], f['line']))
    hdr.append(' * verifier: %s' % res.cmdline)
    defs = dict(job.defines)
    if tier == 'thorough':
        defs.update(job.thorough_defines)
    confirmed = False
    text = ''
    inputs = None
    # A trace through a havocked loop (loop-contract step case) is not an execution of the real code, so inputs
    # are looked for in a bounded re-run without loop contracts first (search only), then in the original trace.
    if job.replay and job.replay != 'noinput':
        try:
            cin, cprop, cdefs = concretize(job, tier, ensure_generated_headers())
        except Exception as e:
            cin, cprop, cdefs = None, None, {}
        if cin is not None:
            inputs, defs = cin, cdefs
            hdr.append(' * concrete failing execution found by a bounded re-run without loop contracts: %s -- %s [%s:%s]'
                       % (cprop['property'], cprop['description'][:100], cprop['file'], cprop['line']))
        elif job.loops == 0:
            inputs = getattr(res, 'trace_inputs', None)
    if job.replay == 'noinput' or (job.replay and inputs is not None):
        init = val_to_c(inputs) if inputs is not None else '{0}'
        hdr.append(' * counterexample inputs extracted from the CBMC trace (harness variable `in`).')
        hdr.append(' * build: see the command at the end of this comment */')
        body = ['#define VERIF_REPLAY 1']
        for k, v in defs.items():
            body.append('#define %s %s' % (k, v if v is not None else ''))
        hp = os.path.join(VERIF, 'harness', job.harness)
        htext = open(hp).read()
        if os.path.isabs(job.harness):
            body.append(htext)   # generated harness: embed, the scratch file is removed after the run
        else:
            body.append('#include "%s"' % hp)
        # type of the input struct: the GET_IN(tag) / NONDET_IN(struct tag) used inside the entry function
        m = re.search(r'void\s+%s\s*\(void\)\s*\{(.*?)\n\}' % re.escape(job.entry), htext, re.S)
        tag = None
        if m:
            mm = re.search(r'GET_IN\((\w+)\)|NONDET_IN\(struct (\w+)\)', m.group(1))
            if mm:
                tag = mm.group(1) or mm.group(2)
        if tag:
            body.append('static struct %s verif_replay_value = %s;' % (tag, init))
            body.append('int main(void) { verif_replay_in = &verif_replay_value; %s(); return verif_replay_status(); }' % job.entry)
        else:
            body.append('int main(void) { %s(); return verif_replay_status(); }' % job.entry)
        src = '\n'.join(hdr) + '\n' + '\n'.join(body) + '\n'
        open(path, 'w').write(src)
        exe = path[:-2] + '.bin'
        cc = ['clang', '-g', '-fsanitize=address,undefined', '-fno-sanitize-recover=undefined', '-w',
              '-DHAVE_CONFIG_H', '-I' + os.path.join(VERIF, 'contracts'), '-I' + os.path.join(VERIF, 'stubs'),
              '-I' + os.path.join(VERIF, 'harness')] + ensure_generated_headers() + \
             ['-I' + os.path.join(REPO, 'src'), '-I' + REPO, '-I' + os.path.join(REPO, 'uthash'), path] + \
             [os.path.join(REPO, 'src', t) for t in TUS if t not in job.tus] + ['-o', exe] + REPLAY_LIBS
        rc, out, _ = run(cc, 300)
        if rc != 0:
            text = 'native build of replay failed:\n' + out[-2000:]
        else:
            env_rc, out, _ = run([exe], 120)
            text = 'native run exit=%d\n%s' % (env_rc, out[-3000:])
            # 0 = oracle passes natively, 1 = oracle failed, 3 = precondition not met natively, other = sanitizer/crash
            # a reproduction is: the native oracle failed, or a sanitizer reported an error inside /repo code
            confirmed = (env_rc == 1 and 'REPLAY: oracle FAILED' in out) or \
                        ((('AddressSanitizer' in out) or ('runtime error' in out)) and '/repo/src/' in out)
            try:
                os.remove(exe)
            except OSError:
                pass
        with open(path, 'a') as f:
            f.write('/* build: %s\n%s\n*/\n' % (' '.join(cc), text.replace('*/', '* /')))
    else:
        hdr.append(' * no native input could be reconstructed from the trace (no-failing-input-found):')
        hdr.append(' * the counterexample lives in havocked loop state, a stub or a fresh object. CBMC output follows.')
        hdr.append(' */')
        steps = getattr(res, 'trace_steps', None) or []
        lines = []
        for s in steps:
            if s.get('stepType') == 'assignment' and not s.get('hidden') and 'value' in s:
                v = s['value']
                dv = v.get('data') if isinstance(v, dict) else None
                if dv is not None:
                    sl = s.get('sourceLocation') or {}
                    lines.append('//  %s:%s %s = %s' % (os.path.basename(sl.get('file', '')), sl.get('line', ''), s.get('lhs'), dv))
        open(path, 'w').write('\n'.join(hdr) + '\n' + '\n'.join(lines[-400:]) + '\n')
    return path, confirmed, text


# ----------------------------------------------------------------------------------------
# known findings

def load_known():
    p = os.path.join(VERIF, 'known_findings.txt')
    out = []
    if os.path.exists(p):
        for ln in open(p):
            ln = ln.strip()
            if ln.startswith('finding:'):
                kv = dict(re.findall(r'(\w+)=(\S+)', ln))
                out.append({'property': kv.get('property'), 'job': kv.get('job'), 'obligation': kv.get('obligation'),
                            'line': ln, 'what': ln.split(' -- ', 1)[1] if ' -- ' in ln else ln})
    return out


def match_known(known, prop, job, failed):
    """A finding matches a failed obligation by (property, job, regex on 'property-name description')."""
    for k in known:
        if k['property'] == prop and k['job'] == job.name:
            if re.search(k['obligation'], failed['property'] + ' ' + failed['description'].replace(' ', '_')):
                return k
    return None


# ----------------------------------------------------------------------------------------
# property-level driver

def run_property(prop, jobs, tier, level_text, undecided_clauses, static_facts=None, parallel=None, extra_assumptions=()):
    t0 = time.time()
    seed = int(os.environ.get('VERIF_SEED', '0') or 0)
    jobs = [j for j in jobs if tier in j.tiers]
    only = os.environ.get('VERIF_JOBS')   # development aid: comma-separated job names (evidence then covers only those)
    if only:
        jobs = [j for j in jobs if j.name in only.split(',')]
    try:
        inc_extra = ensure_generated_headers()
    except Undecided as e:
        print('UNDECIDED property=%s reason=%s' % (prop, e))
        return 2
    keep = os.path.join(VERIF, 'replays', prop)
    par = parallel or min(len(jobs), max(1, (os.cpu_count() or 4) - 2))
    results = []
    with concurrent.futures.ThreadPoolExecutor(max_workers=par) as ex:
        futs = {ex.submit(run_job, j, tier, inc_extra, keep): j for j in jobs}
        for f in concurrent.futures.as_completed(futs):
            r = f.result()
            results.append(r)
            log('[%s] job %-40s %-10s oblig=%d ok=%d %.1fs %s' % (prop, r.job.name, r.status, r.obligations,
                                                                r.discharged, r.wall_s, r.reason))
            for w in r.warnings:
                log('    warning: ' + w)
    results.sort(key=lambda r: [j.name for j in jobs].index(r.job.name))
    known = load_known()
    violations, undecided, known_hits = [], [], []
    for r in results:
        if r.status == 'undecided':
            undecided.append(r)
            if r.log_tail:
                log('---- %s\n%s' % (r.job.name, r.log_tail))
        elif r.status == 'failed':
            unknown = []
            for f in r.failed:
                k = match_known(known, prop, r.job, f)
                if k:
                    known_hits.append((k, r, f))
                else:
                    unknown.append(f)
            if unknown:
                r.failed_unknown = unknown
                violations.append(r)
    rc = 0
    printed = set()
    for k, r, f in known_hits:
        if k['line'] not in printed:
            printed.add(k['line'])
            print('KNOWN-FINDING: property=%s %s' % (prop, k['what']))
    for r in violations:
        r.failed = r.failed_unknown + [f for f in r.failed if f not in r.failed_unknown]
        if r.failed_unknown and getattr(r, 'first_failed', None) not in r.failed_unknown:
            r.first_failed = r.failed_unknown[0]
        path, confirmed, text = write_replay(prop, r.job, r, tier)
        r.replay_path, r.replay_confirmed = path, confirmed
        f0 = r.first_failed
        for ff in sorted(r.failed, key=lambda f: 0 if f['status'] == 'FAILURE' else 1)[:12]:
            log('   %s obligation %s: %s [%s:%s]' % ('failed' if ff['status'] == 'FAILURE' else 'undecided(' + ff['status'] + ')', ff['property'], ff['description'], ff['file'], ff['line']))
        if text:
            log('   ' + text.replace('\n', '\n   ')[:1500])
        print('VIOLATION property=%s replay=%s job=%s obligation=%s%s' % (
            prop, os.path.relpath(path, VERIF), r.job.name, f0['property'],
            '' if confirmed else ' no-failing-input-found'))
        rc = 1
    for r in undecided:
        print('UNDECIDED property=%s job=%s reason=%s' % (prop, r.job.name, r.reason))
        if rc == 0:
            rc = 2
    # evidence
    unb = [r for r in results if r.job.bounded is None]
    bnd = [r for r in results if r.job.bounded is not None]
    obligations = sum(r.obligations for r in unb)
    discharged = sum(r.discharged for r in unb)
    fns = sorted({f for r in results for f in r.job.functions if r.job.bounded is None})
    fns_b = sorted({f for r in results for f in r.job.functions if r.job.bounded is not None} - set(fns))
    trusted = ['cbmc 6.11.0 / goto-cc / goto-instrument (dfcc contract instrumentation; SAT back end: cbmc\'s built-in CaDiCaL unless a job names another)',
               'gcc preprocessor + /repo/config.h as used by goto-cc; LP64, UChar=uint16_t, ICU 72 / sqlite3 headers',
               'lib/annotate.py inserts loop-contract clauses into a scratch copy of the real source (inserts only)']
    for r in results:
        for t in r.job.trusted:
            if t not in trusted:
                trusted.append(t)
    samples = []
    for r in results:
        samples.extend(r.samples[:2])
    ev = {
        'property_id': prop, 'tier': tier, 'seed': seed, 'level': ('proof' if obligations > 0 else 'other'),
        'coverage': {
            'obligations': obligations, 'discharged': discharged,
            'checker_cmd': 'bin/check %s --tier %s  (per job: goto-cc --function harness; goto-instrument --dfcc harness '
                           '--enforce-contract F --replace-call-with-contract G.. --apply-loop-contracts; cbmc --json-ui)' % (prop, tier),
            'trusted_base': trusted,
            'samples': samples[:24],
            'functions_under_contract': fns,
            'functions_bounded_only': fns_b,
            'jobs': [{'job': r.job.name, 'function': r.job.enforce or r.job.entry, 'functions': r.job.functions,
                      'replaced_callees': r.job.replace,
                      'loops_closed_by_invariant': r.loop_obligs, 'bounded': r.job.bounded,
                      'unwind': r.job.unwind, 'status': r.status, 'obligations': r.obligations, 'discharged': r.discharged,
                      'reachability_canaries': r.reach_ok, 'backend': 'cbmc SAT back end: ' + (r.job.flags[r.job.flags.index('--sat-solver') + 1] if '--sat-solver' in r.job.flags else DEFAULT_SAT),
                      'solver_s': round(r.solver_s, 2), 'wall_s': round(r.wall_s, 2), 'cmd': r.cmdline,
                      'defines': dict(r.job.defines, **(r.job.thorough_defines if tier == 'thorough' else {})),
                      'clauses': r.job.clauses, 'note': r.job.note, 'reason': r.reason,
                      'excluded_tool_artefacts': r.artefacts} for r in results],
            'bounded_jobs': [{'job': r.job.name, 'bound': r.job.bounded, 'obligations': r.obligations,
                              'discharged': r.discharged} for r in bnd],
            'bounded_obligations_not_counted': sum(r.obligations for r in bnd),
            'undecided_clauses': undecided_clauses,
            'known_findings_hit': sorted(printed),
            'static_facts': static_facts or [],
            'explanation': level_text,
        },
        'assumptions': list(extra_assumptions) + [t for t in trusted[3:]] + ['undecided: ' + c for c in undecided_clauses],
        'wall_s': round(time.time() - t0, 2),
        'violations': len(violations),
    }
    os.makedirs(os.path.join(VERIF, 'evidence'), exist_ok=True)
    with open(os.path.join(VERIF, 'evidence', prop + '.json'), 'w') as f:
        json.dump(ev, f, indent=1)
    log('[%s] tier=%s jobs=%d obligations=%d discharged=%d bounded_jobs=%d violations=%d undecided=%d wall=%.1fs' % (
        prop, tier, len(results), obligations, discharged, len(bnd), len(violations), len(undecided), time.time() - t0))
    return rc
