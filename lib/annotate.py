#!/usr/bin/env python3
"""Mechanical extraction step (DESIGN.md 3.1).

Copies /repo/src/<tu>.c to a scratch directory and inserts the loop-contract clauses
recorded in contracts/<tu>.loops between the header of the N-th loop of the named
function and the loop body.  Text is only inserted (on the same line, so that line numbers
stay those of /repo); nothing is deleted, reordered or rewritten.

.loops format
    @loop <function> <ordinal>/<total loops in function>  <header fingerprint (free text)>
    <clause lines, raw C, e.g. __CPROVER_assigns(..) __CPROVER_loop_invariant(..)>
Lines starting with '//' are comments.  Must-fire rules: the function must exist exactly
once as a definition, must contain exactly <total> loop statements, every record must be
applied exactly once; otherwise ExtractionError (the check exits 2, never a verdict).
"""
import os
import re
import sys


class ExtractionError(Exception):
    pass


def strip_comments_strings(text):
    """Return text of identical length with comments, string and char literals and
    preprocessor lines blanked (newlines preserved)."""
    # `#ifdef __cplusplus ... #endif` regions hold only `extern "C" {` / `}`: blank them
    text = re.sub(r'#ifdef __cplusplus.*?#endif', lambda m: re.sub(r'[^\n]', ' ', m.group(0)), text, flags=re.S)
    out = list(text)
    i, n = 0, len(text)
    bol = True  # at beginning of line (only whitespace so far)
    while i < n:
        c = text[i]
        if c == '/' and i + 1 < n and text[i + 1] == '*':
            j = text.find('*/', i + 2)
            j = n if j < 0 else j + 2
            for k in range(i, j):
                if out[k] != '\n':
                    out[k] = ' '
            i = j
            continue
        if c == '/' and i + 1 < n and text[i + 1] == '/':
            j = text.find('\n', i)
            j = n if j < 0 else j
            for k in range(i, j):
                out[k] = ' '
            i = j
            continue
        if c == '"' or c == "'":
            q = c
            j = i + 1
            while j < n and text[j] != q:
                if text[j] == '\\':
                    j += 1
                j += 1
            j = min(j + 1, n)
            for k in range(i + 1, j - 1):
                if out[k] != '\n':
                    out[k] = ' '
            i = j
            bol = False
            continue
        if c == '#' and bol:
            # preprocessor directive: ends at the first newline that is neither spliced
            # by a backslash nor inside a /* comment */ (comments may span lines)
            e = i
            while e < n:
                if text[e] == '/' and e + 1 < n and text[e + 1] == '*':
                    q = text.find('*/', e + 2)
                    e = n if q < 0 else q + 2
                    continue
                if text[e] == '\\' and e + 1 < n and text[e + 1] == '\n':
                    e += 2
                    continue
                if text[e] == '\n':
                    break
                e += 1
            for k in range(i, e):
                if out[k] != '\n':
                    out[k] = ' '
            i = e
            continue
        if c == '\n':
            bol = True
        elif c not in ' \t\r':
            bol = False
        i += 1
    return ''.join(out)


def match_close(s, i, open_c, close_c):
    """s[i] == open_c; return index of the matching close_c."""
    depth = 0
    n = len(s)
    while i < n:
        if s[i] == open_c:
            depth += 1
        elif s[i] == close_c:
            depth -= 1
            if depth == 0:
                return i
        i += 1
    raise ExtractionError('unbalanced %s' % open_c)


def find_function(stripped, name):
    """Return (body_open, body_close) indices of the definition of `name`."""
    hits = []
    for m in re.finditer(r'\b%s\s*\(' % re.escape(name), stripped):
        po = m.end() - 1
        try:
            pc = match_close(stripped, po, '(', ')')
        except ExtractionError:
            continue
        j = pc + 1
        while j < len(stripped) and stripped[j] in ' \t\r\n':
            j += 1
        if j < len(stripped) and stripped[j] == '{':
            # must be at top level: the text before m.start() on this statement must not be inside braces
            depth = stripped.count('{', 0, m.start()) - stripped.count('}', 0, m.start())
            if depth == 0:
                hits.append((j, match_close(stripped, j, '{', '}')))
    if len(hits) != 1:
        raise ExtractionError('function %s: %d definitions found' % (name, len(hits)))
    return hits[0]


def find_loops(stripped, lo, hi):
    """Loop statements inside stripped[lo:hi] in textual order.
    Returns list of (kind, insert_pos, header_text)."""
    loops = []
    do_while_positions = set()
    for m in re.finditer(r'\b(for|while|do)\b', stripped[lo:hi]):
        kw = m.group(1)
        pos = lo + m.start()
        if kw == 'do':
            j = lo + m.end()
            k = j
            while stripped[k] in ' \t\r\n':
                k += 1
            if stripped[k] != '{':
                raise ExtractionError('do without brace at %d' % pos)
            kc = match_close(stripped, k, '{', '}')
            m2 = re.compile(r'\s*while\b').match(stripped, kc + 1)
            if not m2:
                raise ExtractionError('do without while at %d' % pos)
            wpos = m2.end() - 5
            do_while_positions.add(wpos)
            po = stripped.index('(', wpos)
            pc = match_close(stripped, po, '(', ')')
            loops.append(('do', j, 'do..while' + stripped[po:pc + 1]))
        elif kw == 'while' and pos in do_while_positions:
            continue
        else:
            po = lo + m.end()
            while stripped[po] in ' \t\r\n':
                po += 1
            if stripped[po] != '(':
                raise ExtractionError('%s without ( at %d' % (kw, pos))
            pc = match_close(stripped, po, '(', ')')
            loops.append((kw, pc + 1, kw + ' ' + stripped[po:pc + 1]))
    return loops


def parse_loops_file(path):
    recs = []
    cur = None
    if not os.path.exists(path):
        return recs
    for ln in open(path):
        s = ln.rstrip('\n')
        if s.strip().startswith('//') or not s.strip():
            continue
        if s.startswith('@loop'):
            parts = s.split(None, 3)
            fn = parts[1]
            o, t = parts[2].split('/')
            cur = {'function': fn, 'ordinal': int(o), 'total': int(t),
                   'fingerprint': parts[3] if len(parts) > 3 else '', 'clauses': []}
            recs.append(cur)
        else:
            if cur is None:
                raise ExtractionError('%s: clause before @loop' % path)
            cur['clauses'].append(s.strip())
    return recs


def norm_ws(s):
    return re.sub(r'\s+', ' ', s).strip()


def annotate_text(text, recs, only_functions=None, warn=None):
    stripped = strip_comments_strings(text)
    inserts = []  # (pos, text)
    applied = 0
    byfn = {}
    for r in recs:
        if only_functions is not None and r['function'] not in only_functions:
            continue
        byfn.setdefault(r['function'], []).append(r)
    for fn, rs in byfn.items():
        lo, hi = find_function(stripped, fn)
        loops = find_loops(stripped, lo, hi)
        for r in rs:
            if r['total'] != len(loops):
                raise ExtractionError('function %s: %d loops found, record says %d'
                                      % (fn, len(loops), r['total']))
            if not (1 <= r['ordinal'] <= len(loops)):
                raise ExtractionError('function %s: bad ordinal %d' % (fn, r['ordinal']))
            kind, pos, hdr = loops[r['ordinal'] - 1]
            if r['fingerprint'] and norm_ws(r['fingerprint']) != norm_ws(hdr) and warn is not None:
                warn('loop header changed: %s #%d: recorded "%s" found "%s"'
                     % (fn, r['ordinal'], norm_ws(r['fingerprint']), norm_ws(hdr)))
            inserts.append((pos, ' ' + ' '.join(r['clauses']) + ' '))
            applied += 1
        seen = [r['ordinal'] for r in rs]
        if len(seen) != len(set(seen)):
            raise ExtractionError('function %s: duplicate loop record' % fn)
    out = text
    for pos, ins in sorted(inserts, reverse=True):
        out = out[:pos] + ins + out[pos:]
    return out, applied


def list_loops(path, fn):
    text = open(path).read()
    stripped = strip_comments_strings(text)
    lo, hi = find_function(stripped, fn)
    for i, (kind, pos, hdr) in enumerate(find_loops(stripped, lo, hi)):
        line = text.count('\n', 0, pos) + 1
        print('%d/%d line %d: %s' % (i + 1, len(find_loops(stripped, lo, hi)), line, norm_ws(hdr)))


if __name__ == '__main__':
    # usage: annotate.py list <file.c> <function>
    if sys.argv[1] == 'list':
        list_loops(sys.argv[2], sys.argv[3])
