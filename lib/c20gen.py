#!/usr/bin/env python3
"""C20: extract every result code from the comment-stripped cif.h of /repo (each run) and
generate the CBMC harness that checks cif_errlist against it (DESIGN.md C20)."""
import os
import re
import sys

sys.path.insert(0, os.path.dirname(os.path.abspath(__file__)))
import annotate  # noqa: E402

# keyword(s) that the message for a code must contain (case-insensitive), written from the
# @brief texts of cif.h.  A code without an entry is an extraction error (exit 2): a newly
# added result code cannot slip through unchecked.
KEYWORDS = {
    'CIF_OK': ['no error'],
    'CIF_FINISHED': ['finished'],
    'CIF_ERROR': ['unspecified'],
    'CIF_MEMORY_ERROR': ['memory'],
    'CIF_INVALID_HANDLE': ['handle'],
    'CIF_INTERNAL_ERROR': ['internal'],
    'CIF_ARGUMENT_ERROR': ['argument'],
    'CIF_MISUSE': ['use'],
    'CIF_NOT_SUPPORTED': ['not supported'],
    'CIF_ENVIRONMENT_ERROR': ['environment'],
    'CIF_CLIENT_ERROR': ['application'],
    'CIF_DUP_BLOCKCODE': ['duplicate', 'block'],
    'CIF_INVALID_BLOCKCODE': ['invalid', 'block'],
    'CIF_NOSUCH_BLOCK': ['no data block'],
    'CIF_DUP_FRAMECODE': ['duplicate', 'frame'],
    'CIF_INVALID_FRAMECODE': ['invalid', 'frame'],
    'CIF_NOSUCH_FRAME': ['no save frame'],
    'CIF_CAT_NOT_UNIQUE': ['category', 'uniquely'],
    'CIF_INVALID_CATEGORY': ['category', 'invalid'],
    'CIF_NOSUCH_LOOP': ['no loop'],
    'CIF_RESERVED_LOOP': ['scalar loop'],
    'CIF_WRONG_LOOP': ['does not belong', 'loop'],
    'CIF_EMPTY_LOOP': ['loop', 'no data'],
    'CIF_NULL_LOOP': ['loop', 'no data names'],
    'CIF_DUP_ITEMNAME': ['duplicate', 'item'],
    'CIF_INVALID_ITEMNAME': ['invalid', 'item'],
    'CIF_NOSUCH_ITEM': ['no item'],
    'CIF_AMBIGUOUS_ITEM': ['one of', 'several values'],
    'CIF_INVALID_PACKET': ['packet', 'not valid'],
    'CIF_PARTIAL_PACKET': ['too few values', 'packet'],
    'CIF_DISALLOWED_VALUE': ['value'],
    'CIF_INVALID_NUMBER': ['number'],
    'CIF_INVALID_INDEX': ['table index'],
    'CIF_INVALID_BARE_VALUE': ['bare'],
    'CIF_INVALID_CHAR': ['invalid', 'character'],
    'CIF_UNMAPPED_CHAR': ['unmappable'],
    'CIF_DISALLOWED_CHAR': ['character', 'not allowed'],
    'CIF_MISSING_SPACE': ['whitespace'],
    'CIF_MISSING_ENDQUOTE': ['quoted string'],
    'CIF_UNCLOSED_TEXT': ['multi-line', 'not terminated'],
    'CIF_OVERLENGTH_LINE': ['line', 'length'],
    'CIF_DISALLOWED_INITIAL_CHAR': ['first character'],
    'CIF_WRONG_ENCODING': ['encoding'],
    'CIF_NO_BLOCK_HEADER': ['outside any data block'],
    'CIF_FRAME_NOT_ALLOWED': ['save frame', 'disabled'],
    'CIF_NO_FRAME_TERM': ['terminator', 'missing'],
    'CIF_UNEXPECTED_TERM': ['terminator', 'none was expected'],
    'CIF_EOF_IN_FRAME': ['end of the input', 'save frame'],
    'CIF_RESERVED_WORD': ['reserved word'],
    'CIF_MISSING_VALUE': ['missing', 'value'],
    'CIF_UNEXPECTED_VALUE': ['unexpected', 'value'],
    'CIF_UNEXPECTED_DELIM': ['misplaced', 'delimiter'],
    'CIF_MISSING_DELIM': ['missing', 'delimiter'],
    'CIF_MISSING_KEY': ['missing', 'key'],
    'CIF_UNQUOTED_KEY': ['unquoted', 'key'],
    'CIF_MISQUOTED_KEY': ['text block', 'key'],
    'CIF_NULL_KEY': ['null', 'key'],
    'CIF_MISSING_PREFIX': ['prefix'],
}


class ExtractError(Exception):
    pass


def strip_comments_only(text):
    return re.sub(r'/\*.*?\*/', lambda m: re.sub(r'[^\n]', ' ', m.group(0)), text, flags=re.S)


def extract_codes(cif_h):
    text = strip_comments_only(open(cif_h).read())
    codes = []
    started = False
    for m in re.finditer(r'^[ \t]*#[ \t]*define[ \t]+(CIF_[A-Z0-9_]+)[ \t]+(-?\d+)[ \t]*$', text, re.M):
        name, val = m.group(1), int(m.group(2))
        if name == 'CIF_OK':
            started = True
        if name == 'CIF_TRAVERSE_CONTINUE':
            break
        if started:
            codes.append((name, val))
    if len(codes) < 50 or codes[0] != ('CIF_OK', 0):
        raise ExtractError('only %d result codes extracted from %s' % (len(codes), cif_h))
    for n, v in codes:
        if n not in KEYWORDS:
            raise ExtractError('result code %s has no keyword entry in lib/c20gen.py' % n)
    return codes


def gen_harness(codes, out_path):
    L = ['/* GENERATED on every run by lib/c20gen.py from the comment-stripped /repo/src/cif.h */',
         '#include "common.h"',
         '#include "cif.c"   /* the real table: cif_errlist, cif_nerr */',
         'static int lc(int c) { return (c >= \'A\' && c <= \'Z\') ? c + 32 : c; }',
         '/* case-insensitive substring test over constant data (loops have constant bounds: fully unwound) */',
         'static int contains(const char *msg, const char *kw) {',
         '  for (int i = 0; i < 80 && msg[i]; i++) {',
         '    int j = 0;',
         '    while (kw[j] && i + j < 80 && lc(msg[i + j]) == lc(kw[j])) j++;',
         '    if (!kw[j]) return 1;',
         '  }',
         '  return 0;',
         '}',
         'static int same(const char *a, const char *b) { for (int i = 0; i < 80; i++) { if (a[i] != b[i]) return 0; if (!a[i]) return 1; } return 1; }',
         'void harness(void) {']
    for n, v in codes:
        L.append('  POST(%d < cif_nerr, "C20 %s(%d) within table");' % (v, n, v))
        L.append('  if (%d < cif_nerr) {' % v)
        L.append('    POST(cif_errlist[%d][0] != 0, "C20 %s(%d) message non-empty");' % (v, n, v))
        for kw in KEYWORDS[n]:
            L.append('    POST(contains(cif_errlist[%d], "%s"), "C20 %s(%d) message mentions \'%s\'");' % (v, kw, n, v, kw))
        L.append('  }')
    # its *own* message: no two defined codes share one text
    for i, (n1, v1) in enumerate(codes):
        for n2, v2 in codes[i + 1:]:
            L.append('  if (%d < cif_nerr && %d < cif_nerr) POST(!same(cif_errlist[%d], cif_errlist[%d]), "C20 %s and %s have distinct messages");'
                     % (v1, v2, v1, v2, n1, n2))
    L.append('  REACH("end");')
    L.append('}')
    open(out_path, 'w').write('\n'.join(L) + '\n')
    return len(codes)
