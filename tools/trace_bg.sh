#!/bin/bash
# tools/trace_bg.sh <Cxx> <job> <property> <outfile> : plain-text cbmc trace of one property into a file (development aid)
cd /verif
python3 - "$@" <<'PY'
import sys, os, importlib
sys.path.insert(0, '/verif/lib'); sys.path.insert(0, '/verif')
import vlib
prop, jobname, pname, outf = sys.argv[1:5]
mod = importlib.import_module('props.' + prop)
job = [j for j in mod.jobs() if j.name == jobname][0]
d, _ = vlib.make_scratch(job.tus, print, set(job.functions))
a, b = d + '/a.gb', d + '/b.gb'
dflags = ['-D%s=%s' % kv for kv in job.defines.items()]
rc, out, _ = vlib.run(vlib.cc_base([], d) + dflags + ['--function', job.entry, '/verif/harness/' + job.harness, '-o', a], 300)
gi = ['goto-instrument', '--dfcc', job.entry]
if job.enforce: gi += ['--enforce-contract-rec' if job.rec else '--enforce-contract', job.enforce]
for g in job.replace: gi += ['--replace-call-with-contract', g]
gi += ['--apply-loop-contracts']
rc, out, _ = vlib.run(gi + [a, b], 600)
cb = ['cbmc', b, '--trace', '--object-bits', '12', '--property', pname, '--verbosity', '4'] + job.flags
rc, out, dt = vlib.run(cb, 7200)
open(outf, 'w').write(out)
import shutil; shutil.rmtree(d)
PY
