#!/usr/bin/env python3
"""tools/import_seed.py <confirm-log>  -- copy confirmed seeded changes into /verif/seeded/<Cxx>-<mk>/ with meta.json"""
import json, os, re, shutil, sys
NEEDS = json.load(open(os.path.join(os.path.dirname(__file__), 'seed_needs.json')))
for ln in open(sys.argv[1]):
    m = re.match(r'RESULT (\S+)/(C\d+)/(m\d) CONFIRMED (.*)', ln)
    if not m:
        continue
    src = os.path.join(m.group(1), m.group(2), m.group(3))
    sid = '%s-%s' % (m.group(2), m.group(3))
    dst = os.path.join('/verif/seeded', sid)
    os.makedirs(dst, exist_ok=True)
    for f in os.listdir(src):
        if f in ('patch.diff', 'README.txt') or f.startswith('demo'):
            shutil.copy(os.path.join(src, f), dst)
    meta = {'id': sid, 'breaks_property': m.group(2), 'needs_to_manifest': NEEDS.get(sid, 'see README.txt'),
            'origin': 'written by an independent sub-agent that saw only the property text and a scratch worktree',
            'confirmed_by': 'tools/confirm_seed.sh in a scratch worktree of /repo HEAD: ' + m.group(4).strip() +
                            ' (suite 74/74 with the change; demo exits 0 on pristine, non-zero with the change)',
            'detected_by': []}
    old = os.path.join(dst, 'meta.json')
    if os.path.exists(old):
        meta['detected_by'] = json.load(open(old)).get('detected_by', [])
    json.dump(meta, open(old, 'w'), indent=1)
    print('imported', sid)
