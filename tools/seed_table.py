#!/usr/bin/env python3
"""Rewrites the seed table of DESIGN.md from seeded/*/meta.json."""
import json, os, re
V = '/verif'
rows = ['| seed | breaks | needs to manifest | checks run | caught by (job: obligation) |', '|---|---|---|---|---|']
n = c = 0
for sid in sorted(os.listdir(os.path.join(V, 'seeded'))):
    m = json.load(open(os.path.join(V, 'seeded', sid, 'meta.json')))
    hits = m.get('detected_by') or []
    n += 1; c += 1 if hits else 0
    by = '; '.join('%s %s: `%s`%s' % (h['check'], h['job'], h['obligation'], ' (replayed natively)' if h.get('replayed_natively') else '') for h in hits[:3]) or '**not detected**'
    rows.append('| %s | %s | %s | %s | %s |' % (sid, m['breaks_property'], m['needs_to_manifest'][:110], ','.join(m.get('checks_run', [])) or '-', by))
rows.append('')
rows.append('%d of %d seeded changes are caught.' % (c, n))
p = os.path.join(V, 'DESIGN.md')
s = open(p).read()
s = re.sub(r'<!-- SEED-TABLE-BEGIN -->.*?<!-- SEED-TABLE-END -->', '<!-- SEED-TABLE-BEGIN -->\n' + '\n'.join(rows) + '\n<!-- SEED-TABLE-END -->', s, flags=re.S)
open(p, 'w').write(s)
print('%d/%d' % (c, n))
