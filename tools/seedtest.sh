#!/bin/bash
# tools/seedtest.sh <patch.diff> <Cxx> [more Cxx..]  -- apply a seeded change to /repo, run the checks, undo.
p=$1; shift
git -C /repo apply "$p" || exit 9
for id in "$@"; do /verif/bin/check $id ${TIER:+--tier $TIER} 2>&1 | grep -E 'VIOLATION|UNDECIDED|KNOWN|failed obligation|tier=' ; done
git -C /repo checkout -- .
