#!/usr/bin/env python3
"""tools/dbg.py <Cxx> <job> [property-substring] [--conc]: print the failing obligations and a compact trace (development aid)."""
import sys, os, json, importlib
sys.path.insert(0, '/verif/lib'); sys.path.insert(0, '/verif')
import vlib
prop, jobname = sys.argv[1], sys.argv[2]
want = sys.argv[3] if len(sys.argv) > 3 and not sys.argv[3].startswith('--') else None
mod = importlib.import_module('props.' + prop)
job = [j for j in mod.jobs() if j.name == jobname][0]
d, _ = vlib.make_scratch(job.tus, print, set(job.functions))
a, b = d + '/a.gb', d + '/b.gb'
dflags = ['-D%s=%s' % kv for kv in job.defines.items()] + ['-D' + x for x in os.environ.get('VERIF_DEFS', '').split()]
rc, out, _ = vlib.run(vlib.cc_base([], d) + dflags + ['--function', job.entry, '/verif/harness/' + job.harness, '-o', a], 300)
print(out[-2000:]) if rc else None
gi = ['goto-instrument', '--dfcc', job.entry]
if job.enforce: gi += ['--enforce-contract-rec' if job.rec else '--enforce-contract', job.enforce]
for g in job.replace: gi += ['--replace-call-with-contract', g]
if '--conc' not in sys.argv and not job.no_loop_contracts: gi += ['--apply-loop-contracts']
rc, out, _ = vlib.run(gi + [a, b], 600); print(out[-1500:]) if rc else None
cb = ['cbmc', b, '--json-ui', '--trace', '--object-bits', '12'] + job.flags
if job.unwind is not None: cb += ['--unwind', str(job.unwind)]
if '--conc' in sys.argv: cb += ['--unwind', '10']
rc, out, dt = vlib.run([c for c in cb if c != '--trace'], 3000)
res, msgs, st = vlib.parse_cbmc_json(out)
fails = [r['property'] for r in res or [] if r['status'] != 'SUCCESS' and not r['description'].startswith('REACH')]
print('failing:', fails, 'time %.1f' % dt)
pick = [f for f in fails if want is None or want in f][:1]
if pick:
    cbt = [c for c in cb if c != '--json-ui'] + ['--property', pick[0], '--compact-trace']
    rc, out, dt = vlib.run(cbt, 3000)
    print('trace time %.1f' % dt)
    import re as _re
    keep = [l for l in out.split('\n') if _re.search(os.environ.get('DBG_GREP', r'^  [a-z_A-Z]'), l)]
    print('\n'.join(keep[-int(os.environ.get('DBG_TAIL', '120')):]))
    res = []
print('status', st, 'time %.1f' % dt)
shown = 0
for r in res or []:
    if r['status'] != 'SUCCESS' and not r['description'].startswith('REACH'):
        print(r['property'], '|', r['description'], '|', (r.get('sourceLocation') or {}).get('line'))
        if (want is None or want in r['property']) and shown < 1 and r.get('trace'):
            shown += 1
            for s in r['trace']:
                if s.get('stepType') == 'assignment' and not s.get('hidden'):
                    v = s.get('value', {})
                    dv = v.get('data') if isinstance(v, dict) else None
                    sl = s.get('sourceLocation') or {}
                    if dv is not None and not s.get('lhs','').startswith('__CPROVER'):
                        print('    %s:%s %s = %s' % (os.path.basename(sl.get('file', '')), sl.get('line'), s.get('lhs'), dv))
                elif s.get('stepType') == 'function-call':
                    print('  call', (s.get('function') or {}).get('displayName'))
if not res: print('\n'.join(msgs)[-3000:])
import shutil; shutil.rmtree(d)
