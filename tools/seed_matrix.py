#!/usr/bin/env python3
"""tools/seed_matrix.py [seed-id ...]: applies each seeded change to a scratch worktree of /repo HEAD, runs the checks that could see it
(VERIF_REPO points the machinery at the worktree), records which obligations fire in seeded/<id>/meta.json and prints a table."""
import json, os, re, subprocess, sys
VERIF = '/verif'
WT = os.environ.get('MATRIX_WT', '/tmp/matrix_wt')   # one worktree per lane; lanes run in parallel only if their check sets are disjoint
# which checks are run against which seed: its own property plus the checks that cover the function it touches
EXTRA = {'C01-m2': ['C08'], 'C13-m1': ['C02', 'C13'], 'C02-m2': ['C02', 'C13'], 'C16-m2': ['C17', 'C16'], 'C17-m2': ['C17', 'C16'], 'C08-m1': ['C08', 'C16'],
         'C09-m2': ['C09', 'C16'], 'C18-m2': ['C18'], 'C13-m2': ['C13'], 'C03-m1': ['C11'], 'C03-m2': ['C15'], 'C02-m1': ['C02', 'C18'], 'C05-m2': ['C05', 'C06'], 'C06-m2': ['C06', 'C05'],
         'C16-m1': ['C16'], 'C17-m1': ['C17', 'C19']}
claimed = [c['property_id'] for c in json.load(open(os.path.join(VERIF, 'MANIFEST.json')))['checks']]


def sh(cmd, **kw):
    return subprocess.run(cmd, shell=True, capture_output=True, text=True, **kw)


def main():
    seeds = sorted(os.listdir(os.path.join(VERIF, 'seeded')))
    if len(sys.argv) > 1:
        seeds = [s for s in seeds if s in sys.argv[1:]]
    if not os.path.exists(WT):
        sh('git -C /repo worktree add -f %s HEAD' % WT)
        sh('cp /repo/config.h %s/; cp /repo/src/internal/schema.h /repo/src/internal/version.h %s/src/internal/' % (WT, WT))
    sh('git -C %s checkout -q --detach $(git -C /repo rev-parse HEAD); git -C %s checkout -- .' % (WT, WT))
    env = dict(os.environ, VERIF_REPO=WT, VERIF_NOTRACE='')
    rows = []
    for sid in seeds:
        d = os.path.join(VERIF, 'seeded', sid)
        prop = sid.split('-')[0]
        checks = [c for c in dict.fromkeys([prop] + EXTRA.get(sid, [])) if c in claimed]
        r = sh('git -C %s apply %s/patch.diff' % (WT, d))
        if r.returncode != 0:
            r = sh('git -C %s apply -3 %s/patch.diff' % (WT, d))
        applied = r.returncode == 0
        hits = []
        for c in checks if applied else []:
            out = sh('%s/bin/check %s --tier quick' % (VERIF, c), env=env, cwd=VERIF)
            for ln in out.stdout.split('\n'):
                if ln.startswith('VIOLATION'):
                    m = re.search(r'job=(\S+) obligation=(\S+)( no-failing-input-found)?', ln)
                    hits.append({'check': c, 'job': m.group(1), 'obligation': m.group(2), 'replayed_natively': not m.group(3)})
        sh('git -C %s checkout -- . ; git -C %s clean -fdq src' % (WT, WT))
        meta_p = os.path.join(d, 'meta.json')
        meta = json.load(open(meta_p))
        meta['checks_run'] = checks
        meta['patch_applies_to_current_head'] = applied
        meta['detected_by'] = hits
        json.dump(meta, open(meta_p, 'w'), indent=1)
        rows.append((sid, checks, hits, applied))
        print('%-8s applied=%s checks=%s -> %s' % (sid, applied, ','.join(checks) or '-', '; '.join('%s/%s:%s%s' % (h['check'], h['job'], h['obligation'], '' if h['replayed_natively'] else ' (no input)') for h in hits) or 'NOT DETECTED'), flush=True)
    # evidence files were rewritten by runs against mutated trees: they must be refreshed on the clean tree afterwards (tools/refresh_evidence.sh)


if __name__ == '__main__':
    main()
