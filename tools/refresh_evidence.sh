#!/bin/bash
# Re-runs every registered check (quick tier) on the clean /repo tree and reports; evidence files are rewritten by the checks.
# At most $PAR checks at a time (default 6): several jobs need 5-25 GB each.
cd /verif
if [ -n "$(git -C /repo status --porcelain --untracked-files=no)" ]; then echo "/repo has uncommitted changes: refusing"; exit 9; fi
ids=$(python3 -c "import json; print(' '.join(c['property_id'] for c in json.load(open('MANIFEST.json'))['checks']))")
echo $ids | tr ' ' '\n' | xargs -P ${PAR:-6} -I{} sh -c 'bin/check {} --tier quick > /tmp/refresh_{}.log 2>&1; echo "{} exit=$?"'
for id in $ids; do tail -n 1 /tmp/refresh_$id.log; grep -h "VIOLATION\|UNDECIDED\|KNOWN-FINDING" /tmp/refresh_$id.log; done
