#!/bin/bash
# Re-runs every registered check (quick tier) on the clean /repo tree and reports; evidence files are rewritten by the checks.
cd /verif
if [ -n "$(git -C /repo status --porcelain --untracked-files=no)" ]; then echo "/repo has uncommitted changes: refusing"; exit 9; fi
ids=$(python3 -c "import json; print(' '.join(c['property_id'] for c in json.load(open('MANIFEST.json'))['checks']))")
rc=0
for id in $ids; do
  ( bin/check $id --tier quick > /tmp/refresh_$id.log 2>&1; echo "$id exit=$?" ) &
done
wait
for id in $ids; do tail -n 1 /tmp/refresh_$id.log; grep -h "VIOLATION\|UNDECIDED\|KNOWN-FINDING" /tmp/refresh_$id.log; done
