#!/bin/bash
# tools/confirm_seed.sh <seedout-dir e.g. /tmp/seedout/C14/m1> : confirms a seeded change independently in a scratch worktree:
#  suite passes with the change, demo passes on pristine and fails with the change. Prints one RESULT line.
set -u
D=$1
WT=${WT:-/tmp/confirm_wt}
if [ ! -d $WT ]; then git -C /repo worktree add -f $WT HEAD >/dev/null 2>&1 && (cd $WT && ./configure >/dev/null 2>&1 && make -j8 >/dev/null 2>&1); fi
cd $WT && git checkout -q -- . && make -j8 >/dev/null 2>&1
build_demo() {
  if [ -f $D/demo.sh ]; then return 0; fi
  gcc -w -I$WT/src -I$WT -I$WT/uthash $D/demo.c -o /tmp/confirm_demo.$$ -L$WT/src/.libs -lcif -licuuc -licuio -licui18n -lsqlite3 -lm 2>/tmp/confirm_cc.$$ ;
}
run_demo() {
  if [ -f $D/demo.sh ]; then (cd $D && WT=$WT bash ./demo.sh $WT >/dev/null 2>&1); return $?; fi
  (cd $D && LD_LIBRARY_PATH=$WT/src/.libs timeout 600 /tmp/confirm_demo.$$ >/tmp/confirm_out.$$ 2>&1); return $?
}
build_demo || { echo "RESULT $D demo-build-failed"; cat /tmp/confirm_cc.$$ | head -5; exit 1; }
run_demo; P=$?
git apply $D/patch.diff || { echo "RESULT $D patch-does-not-apply"; exit 1; }
make -j8 >/tmp/confirm_mk.$$ 2>&1 || { echo "RESULT $D build-failed-with-patch"; git checkout -q -- .; exit 1; }
S=$(make -j8 -k check 2>&1 | grep -E '^# (FAIL|ERROR)' | awk '{s+=$3} END {print s+0}')
build_demo; run_demo; M=$?
git checkout -q -- . ; make -j8 >/dev/null 2>&1
rm -f /tmp/confirm_demo.$$ /tmp/confirm_cc.$$ /tmp/confirm_out.$$ /tmp/confirm_mk.$$
if [ "$P" = 0 ] && [ "$M" != 0 ] && [ "$S" = 0 ]; then echo "RESULT $D CONFIRMED pristine_demo=$P mutant_demo=$M suite_failures=$S"; else echo "RESULT $D NOT-CONFIRMED pristine_demo=$P mutant_demo=$M suite_failures=$S"; fi
