#!/usr/bin/env python3
"""setup_cmd: nothing to download or build; verifies the toolchain and the generated headers of /repo."""
import os, shutil, subprocess, sys
sys.path.insert(0, os.path.join(os.path.dirname(os.path.dirname(os.path.abspath(__file__))), 'lib'))
import vlib
for t in ('goto-cc', 'goto-instrument', 'cbmc', 'clang'):
    if not shutil.which(t):
        print('missing tool', t); sys.exit(1)
print(subprocess.run(['cbmc', '--version'], capture_output=True, text=True).stdout.strip())
try:
    inc = vlib.ensure_generated_headers()
except vlib.Undecided as e:
    print('setup failed:', e); sys.exit(1)
print('generated headers ok', inc)
