#!/usr/bin/env python3
"""Regenerates /verif/MANIFEST.json from the table below (keeps it schema-valid)."""
import json
import os

VERIF = os.path.dirname(os.path.dirname(os.path.abspath(__file__)))

TECH = 'CBMC 6.11 code contracts on the real C source (goto-instrument --dfcc: enforce-contract / replace-call-with-contract / apply-loop-contracts), SAT back end (CaDiCaL as built into cbmc)'

CLAIMED = {
    'C20': dict(
        text='Complete deductive check over a finite domain: every result code extracted from cif.h each run is proved (CBMC, constant '
             'propagation + SAT, complete unwinding of constant-bound loops) to index a non-empty, distinct cif_errlist slot naming that condition.',
        note='Trusted: CBMC/goto-cc, the keyword table in lib/c20gen.py (what "describes that very condition" means per code).',
        ref='5/C20', technique='CBMC assertions over the real constant table, codes extracted mechanically from cif.h on every run'),
}

CLAIMED.update({
    'C09': dict(
        text='Partial: the accept/reject boundary of codes, data names and table keys (cif_has_whitespace, cif_has_disallowed_chars, '
             'cif_is_valid_name, normalize_* wrappers) is proved against a specification of the CIF 2.0 character and name rules, loops closed '
             'by invariants; normalisation itself (ICU) and key matching inside SQLite are assumed, as the evidence states on every run.',
        note='Trusted: CBMC; ICU u_countChar32/unorm_normalize/u_strFoldCase by assumed contract; SQL matching not decided.',
        ref='5/C09'),
    'C18': dict(
        text='cif_is_reserved_string: complete proof (loop-free) of equivalence with the reserved-form specification and of not reading past the NUL; '
             'further C18 functions are added as jobs of the same check.',
        note='Trusted: CBMC; the specification macros in contracts/preds.h (written from the CIF 2.0 grammar).',
        ref='5/C18'),
})

CLAIMED.update({
    'C02': dict(
        text='Partial: fold_line (the routine that decides where cif_write breaks long text-field lines) is proved, for symbolic target length and '
             'window and all strings below MAXN units with all six loops closed by invariants, never to split a surrogate pair, never to put a '
             'semicolon first on a continuation line of an unprefixed field, to keep lines that fit whole, and to exceed the window only when no '
             'admissible point exists. Byte-level output and re-parse equivalence are not decided.',
        note='Trusted: CBMC; ICU u_strlen by assumed contract. Undecided clauses are listed in the evidence on every run.', ref='5/C02'),
    'C07': dict(
        text='Partial: the serialisation buffer primitives that carry every stored value (cif_buf_write / cif_buf_read) are proved to append / deliver '
             'exactly the bytes given, preserve earlier content across growth, terminate, and fail cleanly. SQL column mapping and the composite '
             'serialise/deserialise round trip are not decided.',
        note='Trusted: CBMC incl. its malloc/realloc/memcpy models.', ref='5/C07'),
    'C10': dict(
        text='Partial: the rounding decision helpers is_zero / compare_half (tie / above / below, the basis of round-half-even) are under contract, loop closed by invariant. Bounded: cif_value_parse_numb agrees with a recogniser of the CIF numeric syntax on ALL strings shorter than MAXT code units '
             '(complete unwinding, unwinding assertions on) and leaves the value untouched on refusal. Correct rounding of the bignum conversions is '
             'outside the reach of CBMC and explicitly not decided.',
        note='Bounded stand-in (string length < 8 quick / 12 thorough); never counted as proved obligations in the evidence.', ref='5/C10',
        technique='CBMC bounded check of the real function against an executable grammar oracle (complete unwinding); rounding: not decided'),
    'C11': dict(
        text='cif_parse() is loop-free: its contract - the documented version/encoding decision table as a pure expression of the options and the stream '
             'prefix - is proved for ALL option values and ALL first 16 bytes and stream lengths (complete). ICU behaviour and the second stage in '
             'cif_parse_internal (version comment of the decoded text, CIF_WRONG_ENCODING report for any non-zero flag, BOM handling, option strings) is a second job '
             'over ghost-chosen first characters and first token.',
        note='Trusted: CBMC; assumed contracts for fread/ferror/ICU converter API/cif_parse_internal (they record their arguments).', ref='5/C11'),
    'C14': dict(
        text='Per-level contracts on the real walker (walk_item, walk_packet, walk_loop, walk_loops; walk_container and cif_walk in progress), each enforced '
             'with its callees replaced by contracts, loops closed by invariants. Ghost monitors decide: no callback after END/error, no sibling after '
             'SKIP_SIBLINGS, every child once and in order, start before children before end, handles released, result-code protocol.',
        note='Trusted: CBMC; assumed contracts of the getters/iterator (they return what is stored; close succeeds); packet entries laid out in an array.',
        ref='5/C14'),
    'C19': dict(
        text='Whole-view contracts on the list operations get/set/remove_element_at (every slot of the element array is constrained), proved for all lists '
             'up to MAXL slots with the shift loop closed by an invariant; insert_element_at (growth by realloc, failure leaves the list unchanged) by a bounded job; tables/packets (uthash) are not decided.',
        note='Trusted: CBMC; abstract contracts of clone/create/free/clean as callees.', ref='5/C19'),
})

CLAIMED.update({
    'C13': dict(
        text='Partial: the CIF 1.1 gatekeeper cif_validate_cif11_characters (bounded: all strings below MAXN units, all code-unit values), write_quoted '
             '(line-length accounting) and fold_line (no ";" in column 1 of an unprefixed continuation line, unbounded) are under contract. '
             'Refusal paths of write_item/write_char and re-parse equivalence are not decided.',
        note='Trusted: CBMC; models of u_fprintf/u_fputc. One job is a bounded stand-in and is listed as such in the evidence.', ref='5/C13'),
    'C17': dict(
        text='Allocating functions under contract re-verified with --malloc-may-fail --malloc-fail-null --memory-leak-check: cif_unicode_normalize '
             '(all three allocation sites incl. the retry and the terminator realloc), cif_buf_write and (bounded) cif_value_insert_element_at with a failing growth reallocation: documented error code, outputs untouched, '
             'no leak, no invalid free, no out-of-bounds write on any failure path.',
        note='Scope = the functions listed in the evidence; allocations inside SQLite/ICU are not decided.', ref='5/C17'),
})

CLAIMED.update({
    'C08': dict(
        text='get_more_chars - the only place where scanned text moves relative to the scan buffer - is under contract for every buffer state (reset, '
             'compaction, growth, append) and every answer of the character source: token-relative offsets preserved, pointers in bounds, source asked '
             'at most once into the free tail (complete for buffers up to MAXBUF units; that half has no loop). CR / CR LF folding of a fill is decided '
             'by a bounded job (fill <= 4 quick / 7 thorough units, all contents) against the folding specification.',
        note='Trusted: CBMC; assumed contracts for read_func, memmove/memcpy (range only), u_memchr/u_memmove. Line counting and decode_text not decided.',
        ref='5/C08'),
    'C16': dict(
        text='Scope-limited: the memory-safety, overflow, free and leak obligations of every function under contract (CBMC 6 default checks + '
             '--memory-leak-check where the harness releases what the caller owns) are collected in one check, plus cif_loop_set_category under contract with a leak check over the SQLite model; the evidence lists the functions covered '
             'and, explicitly, what is not (all SQLite choreography, most of the parser, locale handling).',
        note='Trusted: CBMC memory model. Not a whole-library claim.', ref='5/C16'),
})

CLAIMED.update({
    'C15': dict(
        text='Contracts on the productions parse_container (recursive; token loop unwound: bounded) and parse_item (loop-free, complete): skip-depth accounting on '
             'every path incl. error exits and allocation failure, block/frame/item/keyword/data-name callbacks silent while a skip is in effect, storage '
             'functions called only outside a skip, only with a target container and (items) only after CONTINUE. The loop productions and parse_cif are '
             'assumed balanced; callback order across productions and "reported = stored" are not decided.',
        note='Trusted: CBMC; token source and sub-productions by assumed contract; parse_container job is bounded (<= 3 tokens per container level).', ref='5/C15'),
})

CLAIMED.update({
    'C01': dict(
        text='Partial and bounded: decode_text - prefix / line-folding protocols and terminator normalisation of text fields - agrees with a reference decoder '
             'written from the CIF 2.0 specification on ALL texts of up to 6 (quick) / 8 (thorough) code units, every 16-bit value per unit; no write outside '
             'the output buffer. Scanner lexemes, parse_value coercions and the stored content are not decided.',
        note='Bounded stand-in (one job per concrete length); trusted: CBMC, the reference decoder in the harness, models of value/ICU helpers.', ref='5/C01', category='other',
        technique='CBMC bounded equivalence check of the real decode_text against an executable specification (complete unwinding per length)'),
    'C06': dict(
        text='Partial: cif_pktitr_close (COMMIT once, rollback on failure, all writes durable on success, iterator freed), cif_pktitr_abort (ROLLBACK once, '
             'never a COMMIT, nothing durable), cif_pktitr_remove_packet and cif_pktitr_update_packet (stale iterator => INVALID_HANDLE, no current packet => MISUSE without '
             'touching the database, a removed packet is no longer current for every kind of loop, failure rolls back to the call\'s own savepoint) are proved over a ghost '
             'model of SQLite transactions and savepoints. Packet enumeration is SQL and not decided.',
        note='Trusted: CBMC; the SQLite transaction model of stubs/sqlite_model.h (meaning of commit / rollback assumed).', ref='5/C06'),
})

CLAIMED.update({
    'C05': dict(
        text='Partial: cif_container_create_loop_internal (names loop closed by an invariant), cif_container_set_value (helpers by assumed contract), cif_pktitr_update_packet and cif_pktitr_remove_packet are proved, over a ghost '
             'model of SQLite transactions with a savepoint stack, to undo on every error return exactly the writes they stepped - nothing durable, the enclosing '
             'transaction still open with its writes and savepoints - and never to COMMIT / ROLLBACK an enclosing transaction. Table content (what each SQL statement '
             'does) is SQLite\'s and not decided; the other mutators are not under contract yet.',
        note='Trusted: CBMC; the SQLite model of stubs/sqlite_model.h (meaning of savepoint / release / rollback to / commit / rollback assumed); cif_u_strdup, cif_loop_free, '
             'cif_loop_get_category by assumed contract.', ref='5/C05'),
})

CLAIMED.update({
    'C12': dict(
        text='Partial and bounded (lexical defect classes only): scan_to_eol, scan_to_ws and scan_unquoted - the real code including get_more_chars - are run on every input of up to '
             '2 (quick) / 3 (thorough) code units, every 16-bit value per unit, CIF 1.1 and 2.0 tables, every accept / reject answer, and their reports are compared with a '
             'specification of the character rules: disallowed character => CIF_DISALLOWED_CHAR at that unit, unpaired surrogate => CIF_INVALID_CHAR and replaced, noncharacter '
             'pair => two-unit report, nothing reported that the text does not justify; a fourth job decides the missing-whitespace rule for brackets after data_ / save_ headers. '
             'The unbounded contract for these loops is written but cbmc cannot discharge it (parked/README.md). Defect classes above the lexical level are not decided.',
        note='Bounded stand-in, never counted as proved; trusted: CBMC, the character-rule specification in the harness, reference bodies of two ICU primitives.', ref='5/C12', category='other',
        technique='CBMC bounded check of the real scanner functions against an executable specification of the CIF character rules (complete unwinding, all unit values)'),
})

NOT_APPLICABLE = {
    'C04': 'The abstract state (tables, keys, cascades, triggers) and every transition are SQL text interpreted by SQLite at run time; a C-level '
           'contract can only say that the SQL string was handed to SQLite. A relational contract per statement would be a hand-written model '
           'of SQLite, i.e. a different technique family (DESIGN.md 5/C04).',
    'C03': 'Totality of the whole parser on every byte sequence is a statement about the scanner loops (every token passes through SCAN_UCHAR loops that write replacement '
           'characters in place) composed with all productions. The contract for those loops is written (parked/) but cbmc 6.11 cannot discharge it: a store through a '
           'pointer that the loop contract havocs makes the formula grow past 27 GB (DESIGN.md 9.1, 30-line reproduction). Without it only fragments are within reach, and '
           'they are claimed where they belong - callback arguments and result protocol of three scanner functions (C12, bounded), get_more_chars / get_first_char (C08), '
           'the version / encoding stage (C11), skip accounting of the productions (C15) - rather than as a C03 check that would decide almost none of its statement.',
}

PENDING = 'check not built yet in this round (design in DESIGN.md section 5); not claimed until its obligations are discharged on every run'


def main():
    ids = [json.loads(l)['id'] for l in open(os.path.join(VERIF, 'properties.jsonl'))]
    checks = []
    for i in ids:
        if i in CLAIMED:
            c = CLAIMED[i]
            checks.append({
                'property_id': i,
                'quick_cmd': 'bin/check %s --tier quick' % i,
                'thorough_cmd': 'bin/check %s --tier thorough' % i,
                'evidence_file': 'evidence/%s.json' % i,
                'replay_cmd_template': 'cat {path}   # self-contained C file; its trailing comment holds the native build command and the native result',
                'engine': 'cbmc-contracts',
                'level_claimed': {'category': c.get('category', 'proof'), 'text': c['text'], 'design_ref': c['ref']},
                'level_note': c['note'],
                'technique': c.get('technique', TECH),
            })
    na = []
    for i in ids:
        if i not in CLAIMED:
            na.append({'property_id': i, 'reason': NOT_APPLICABLE.get(i, PENDING)})
    m = {
        'version': 1,
        'setup_cmd': 'python3 tools/setup.py',
        'hooks': {
            'guard': 'CIF_API_VERIF',
            'enable': 'none needed: contracts live in /verif/contracts/*.h (prototypes carrying __CPROVER clauses) and loop contracts are '
                      'inserted into a scratch copy of the source on every run (lib/annotate.py); goto-cc is run with -DCIF_API_VERIF but '
                      '/repo contains no code guarded by it',
            'baseline_off_cmd': 'cd /repo && make -j8 >/dev/null && make -k check',
            'source_commits': [],
            'add_only': True,
        },
        'engines': [{'name': 'cbmc-contracts', 'path': 'lib/vlib.py', 'serves_properties': sorted(CLAIMED),
                     'kind_free_text': TECH}],
        'checks': checks,
        'not_applicable': na,
        'notes': 'Exit codes of every check: 0 = all obligations discharged (KNOWN-FINDING lines for findings listed in known_findings.txt); '
                 '1 = VIOLATION line(s); 2 = UNDECIDED (tool limit / extraction broken / vacuity guard), never a verdict. '
                 'Bounded jobs are listed separately in the evidence and never counted as discharged proof obligations.',
    }
    with open(os.path.join(VERIF, 'MANIFEST.json'), 'w') as f:
        json.dump(m, f, indent=1)
    print('MANIFEST.json: %d checks, %d not_applicable' % (len(checks), len(na)))


if __name__ == '__main__':
    main()
