#!/usr/bin/env python3
"""Regenerates /verif/MANIFEST.json from the table below (keeps it schema-valid)."""
import json
import os

VERIF = os.path.dirname(os.path.dirname(os.path.abspath(__file__)))

TECH = 'CBMC 6.11 code contracts on the real C source (goto-instrument --dfcc: enforce-contract / replace-call-with-contract / apply-loop-contracts), SAT back end'

CLAIMED = {
    'C20': dict(
        text='Complete deductive check over a finite domain: every result code extracted from cif.h each run is proved (CBMC, constant '
             'propagation + SAT, complete unwinding of constant-bound loops) to index a non-empty, distinct cif_errlist slot naming that condition.',
        note='Trusted: CBMC/goto-cc, the keyword table in lib/c20gen.py (what "describes that very condition" means per code).',
        ref='5/C20', technique='CBMC assertions over the real constant table, codes extracted mechanically from cif.h on every run'),
}

CLAIMED.update({
    'C09': dict(
        text='Partial: the accept/reject boundary of codes, data names and table keys (cif_has_whitespace, cif_has_disallowed_chars, '
             'cif_is_valid_name, normalize_* wrappers) is proved against a specification of the CIF 2.0 character and name rules, loops closed '
             'by invariants; normalisation itself (ICU) and key matching inside SQLite are assumed, as the evidence states on every run.',
        note='Trusted: CBMC; ICU u_countChar32/unorm_normalize/u_strFoldCase by assumed contract; SQL matching not decided.',
        ref='5/C09'),
    'C18': dict(
        text='cif_is_reserved_string: complete proof (loop-free) of equivalence with the reserved-form specification and of not reading past the NUL; '
             'further C18 functions are added as jobs of the same check.',
        note='Trusted: CBMC; the specification macros in contracts/preds.h (written from the CIF 2.0 grammar).',
        ref='5/C18'),
})

NOT_APPLICABLE = {
    'C04': 'The abstract state (tables, keys, cascades, triggers) and every transition are SQL text interpreted by SQLite at run time; a C-level '
           'contract can only say that the SQL string was handed to SQLite. A relational contract per statement would be a hand-written model '
           'of SQLite, i.e. a different technique family (DESIGN.md 5/C04).',
}

PENDING = 'check not built yet in this round (design in DESIGN.md section 5); not claimed until its obligations are discharged on every run'


def main():
    ids = [json.loads(l)['id'] for l in open(os.path.join(VERIF, 'properties.jsonl'))]
    checks = []
    for i in ids:
        if i in CLAIMED:
            c = CLAIMED[i]
            checks.append({
                'property_id': i,
                'quick_cmd': 'bin/check %s --tier quick' % i,
                'thorough_cmd': 'bin/check %s --tier thorough' % i,
                'evidence_file': 'evidence/%s.json' % i,
                'replay_cmd_template': 'cat {path}   # self-contained C file; its trailing comment holds the native build command and the native result',
                'engine': 'cbmc-contracts',
                'level_claimed': {'category': 'proof', 'text': c['text'], 'design_ref': c['ref']},
                'level_note': c['note'],
                'technique': c.get('technique', TECH),
            })
    na = []
    for i in ids:
        if i not in CLAIMED:
            na.append({'property_id': i, 'reason': NOT_APPLICABLE.get(i, PENDING)})
    m = {
        'version': 1,
        'setup_cmd': 'python3 tools/setup.py',
        'hooks': {
            'guard': 'CIF_API_VERIF',
            'enable': 'none needed: contracts live in /verif/contracts/*.h (prototypes carrying __CPROVER clauses) and loop contracts are '
                      'inserted into a scratch copy of the source on every run (lib/annotate.py); goto-cc is run with -DCIF_API_VERIF but '
                      '/repo contains no code guarded by it',
            'baseline_off_cmd': 'cd /repo && make -j8 >/dev/null && make -k check',
            'source_commits': [],
            'add_only': True,
        },
        'engines': [{'name': 'cbmc-contracts', 'path': 'lib/vlib.py', 'serves_properties': sorted(CLAIMED),
                     'kind_free_text': TECH}],
        'checks': checks,
        'not_applicable': na,
        'notes': 'Exit codes of every check: 0 = all obligations discharged (KNOWN-FINDING lines for findings listed in known_findings.txt); '
                 '1 = VIOLATION line(s); 2 = UNDECIDED (tool limit / extraction broken / vacuity guard), never a verdict. '
                 'Bounded jobs are listed separately in the evidence and never counted as discharged proof obligations.',
    }
    with open(os.path.join(VERIF, 'MANIFEST.json'), 'w') as f:
        json.dump(m, f, indent=1)
    print('MANIFEST.json: %d checks, %d not_applicable' % (len(checks), len(na)))


if __name__ == '__main__':
    main()
