/*
 * Trusted model of the SQLite C API as far as transaction bracketing is concerned (DESIGN 4, C05 / C06).
 * sqlite3_exec interprets exactly the six literals the library uses (begin, commit, rollback, savepoint s, release s,
 * rollback to s) on a ghost transaction state and may fail nondeterministically; prepare tags a statement as a write
 * unless its SQL starts with "select"; step returns any code and counts a stepped write; everything else is
 * nondeterministic within its type.  ASSUMPTION (listed in the evidence): a rolled-back transaction or savepoint is
 * invisible, a committed one (or a write stepped in autocommit mode) is durable.
 */
#ifndef VERIF_SQLITE_MODEL_H
#define VERIF_SQLITE_MODEL_H
#include <sqlite3.h>
int nondet_int(void);
struct sqlite3_stmt { int is_write; int finalized; };

int g_tx_open;              /* a transaction is open (autocommit off) */
int g_sp_depth;             /* open savepoints named s */
unsigned g_tx_writes;       /* writes stepped inside the open transaction, not yet committed or rolled back */
unsigned g_sp_writes;       /* of those, the ones stepped since the innermost open savepoint was taken */
unsigned g_durable_writes;  /* writes made durable: committed, or stepped in autocommit mode */
unsigned g_lost_writes;     /* writes undone by rollback / rollback to */
unsigned g_commits, g_rollbacks, g_begins, g_saves, g_releases, g_rollback_tos, g_write_steps, g_finalized;
#define G_SQL g_tx_open, g_sp_depth, g_tx_writes, g_sp_writes, g_durable_writes, g_lost_writes, g_commits, g_rollbacks, g_begins, g_saves, g_releases, g_rollback_tos, g_write_steps, g_finalized

int sqlite3_exec(sqlite3 *db, const char *sql, int (*cb)(void *, int, char **, char **), void *arg, char **errmsg) {
    int fail = nondet_int();
    /* begin | commit | rollback | rollback to s | savepoint s | release s */
    if (sql[0] == 'b') { g_begins++; if (fail || g_tx_open) return SQLITE_ERROR; g_tx_open = 1; g_tx_writes = 0; g_sp_writes = 0; g_sp_depth = 0; return SQLITE_OK; }
    if (sql[0] == 'c') { g_commits++; if (fail || !g_tx_open) return SQLITE_ERROR; g_durable_writes += g_tx_writes; g_tx_writes = 0; g_sp_writes = 0; g_sp_depth = 0; g_tx_open = 0; return SQLITE_OK; }
    if (sql[0] == 's') { g_saves++; if (fail) return SQLITE_ERROR; g_tx_open = 1; g_sp_depth++; g_sp_writes = 0; return SQLITE_OK; }
    if (sql[0] == 'r' && sql[1] == 'e') { g_releases++; if (fail || g_sp_depth <= 0) return SQLITE_ERROR; g_sp_depth--; return SQLITE_OK; }
    if (sql[0] == 'r' && sql[8] == 0) { g_rollbacks++; if (fail || !g_tx_open) return SQLITE_ERROR; g_lost_writes += g_tx_writes; g_tx_writes = 0; g_sp_writes = 0; g_sp_depth = 0; g_tx_open = 0; return SQLITE_OK; }
    if (sql[0] == 'r') { g_rollback_tos++; if (fail || g_sp_depth <= 0) return SQLITE_ERROR; g_lost_writes += g_sp_writes; g_tx_writes -= g_sp_writes; g_sp_writes = 0; return SQLITE_OK; }
    return nondet_int();
}
int sqlite3_get_autocommit(sqlite3 *db) { return !g_tx_open; }
int sqlite3_prepare_v2(sqlite3 *db, const char *sql, int n, sqlite3_stmt **stmt, const char **tail) {
    if (nondet_int()) { *stmt = NULL; return SQLITE_ERROR; }
    struct sqlite3_stmt *s = malloc(sizeof *s);
    if (!s) { *stmt = NULL; return SQLITE_NOMEM; }
    s->is_write = !((sql[0] == 's' || sql[0] == 'S') && (sql[1] == 'e' || sql[1] == 'E')); s->finalized = 0;
    *stmt = s; return SQLITE_OK;
}
int sqlite3_step(sqlite3_stmt *s) {
    int rc = nondet_int();
    if (s != NULL && s->is_write && (rc == SQLITE_DONE || rc == SQLITE_ROW)) {
        g_write_steps++;
        if (g_tx_open) { g_tx_writes++; g_sp_writes++; } else g_durable_writes++;
    }
    return rc;
}
int sqlite3_reset(sqlite3_stmt *s) { return nondet_int(); }
int sqlite3_clear_bindings(sqlite3_stmt *s) { return nondet_int(); }
int sqlite3_finalize(sqlite3_stmt *s) { if (s != NULL) { g_finalized++; free(s); } return nondet_int(); }
int sqlite3_bind_int(sqlite3_stmt *s, int i, int v) { return nondet_int(); }
int sqlite3_bind_int64(sqlite3_stmt *s, int i, sqlite3_int64 v) { return nondet_int(); }
int sqlite3_bind_text16(sqlite3_stmt *s, int i, const void *t, int n, void (*d)(void *)) { return nondet_int(); }
int sqlite3_bind_null(sqlite3_stmt *s, int i) { return nondet_int(); }
int sqlite3_bind_double(sqlite3_stmt *s, int i, double v) { return nondet_int(); }
int sqlite3_bind_blob(sqlite3_stmt *s, int i, const void *b, int n, void (*d)(void *)) { return nondet_int(); }
int sqlite3_changes(sqlite3 *db) { return nondet_int(); }
int sqlite3_column_int(sqlite3_stmt *s, int c) { return nondet_int(); }
#endif
