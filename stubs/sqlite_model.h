/*
 * Trusted model of the SQLite C API as far as transaction bracketing is concerned (DESIGN 4, C05 / C06).
 * sqlite3_exec interprets exactly the six literals the library uses (begin, commit, rollback, savepoint s, release s,
 * rollback to s) on a ghost transaction state and may fail nondeterministically; prepare tags a statement as a write
 * unless its SQL starts with "select"; step returns any code and counts a stepped write; savepoints form a stack of write marks;
 * everything else is
 * nondeterministic within its type.  ASSUMPTION (listed in the evidence): a rolled-back transaction or savepoint is
 * invisible, a committed one (or a write stepped in autocommit mode) is durable.
 */
#ifndef VERIF_SQLITE_MODEL_H
#define VERIF_SQLITE_MODEL_H
#include <sqlite3.h>
int nondet_int(void);
/* statements are opaque to the library: the model hands out one of two static objects (read / write), nothing is allocated or freed */
struct sqlite3_stmt { int is_write; };
static struct sqlite3_stmt g_stmt_pool[2] = { { 0 }, { 1 } };

#define MAXSP 4             /* modelled depth of the savepoint stack (exceeding it is an assertion failure, never silently ignored) */
int g_tx_open;              /* a transaction is open (autocommit off) */
int g_tx_by_sp;             /* ... and it was opened by a savepoint rather than by BEGIN (releasing the outermost savepoint commits) */
int g_sp_depth;             /* open savepoints named s */
unsigned g_sp_mark[MAXSP];  /* value of g_tx_writes when savepoint k was taken */
unsigned g_tx_writes;       /* writes stepped inside the open transaction, not yet committed or rolled back */
unsigned g_durable_writes;  /* writes made durable: committed, or stepped in autocommit mode */
unsigned g_lost_writes;     /* writes undone by rollback / rollback to */
int g_undo_failed;          /* SQLite refused a ROLLBACK or ROLLBACK TO (I/O failure: outside every property) */
unsigned g_commits, g_rollbacks, g_begins, g_saves, g_releases, g_rollback_tos, g_write_steps, g_finalized;
#define G_SQL g_tx_open, g_tx_by_sp, g_sp_depth, __CPROVER_object_whole(g_sp_mark), g_tx_writes, g_durable_writes, g_lost_writes, g_undo_failed, g_commits, g_rollbacks, g_begins, g_saves, g_releases, g_rollback_tos, g_write_steps, g_finalized
/* well-formed model state */
#define SQL_WF (g_sp_depth >= 0 && g_sp_depth <= MAXSP && (g_tx_open || g_sp_depth == 0) && (g_tx_open || g_tx_writes == 0) \
    && (g_sp_depth < 1 || g_sp_mark[0] <= g_tx_writes) && (g_sp_depth < 2 || (g_sp_mark[0] <= g_sp_mark[1] && g_sp_mark[1] <= g_tx_writes)) \
    && (g_sp_depth < 3 || (g_sp_mark[1] <= g_sp_mark[2] && g_sp_mark[2] <= g_tx_writes)) && (g_sp_depth < 4 || (g_sp_mark[2] <= g_sp_mark[3] && g_sp_mark[3] <= g_tx_writes)))

static void sql_end_tx(int durable) {
    if (durable) g_durable_writes += g_tx_writes; else g_lost_writes += g_tx_writes;
    g_tx_writes = 0; g_sp_depth = 0; g_tx_open = 0; g_tx_by_sp = 0;
}
int sqlite3_exec(sqlite3 *db, const char *sql, int (*cb)(void *, int, char **, char **), void *arg, char **errmsg) {
    int fail = nondet_int();
    /* begin | commit | rollback | rollback to s | savepoint s | release s */
    if (sql[0] == 'b') { g_begins++; if (fail || g_tx_open) return SQLITE_ERROR; g_tx_open = 1; g_tx_by_sp = 0; g_tx_writes = 0; g_sp_depth = 0; return SQLITE_OK; }
    if (sql[0] == 'c') { g_commits++; if (fail || !g_tx_open) return SQLITE_ERROR; sql_end_tx(1); return SQLITE_OK; }
    if (sql[0] == 's') {
        g_saves++; if (fail) return SQLITE_ERROR;
        __CPROVER_assert(g_sp_depth < MAXSP, "sqlite model: savepoint stack deeper than MAXSP");
        __CPROVER_assume(g_sp_depth < MAXSP);
        if (!g_tx_open) { g_tx_open = 1; g_tx_by_sp = 1; g_tx_writes = 0; g_sp_depth = 0; }
        g_sp_mark[g_sp_depth] = g_tx_writes; g_sp_depth++; return SQLITE_OK;
    }
    if (sql[0] == 'r' && sql[1] == 'e') { g_releases++; if (fail || g_sp_depth <= 0) return SQLITE_ERROR; g_sp_depth--; if (g_sp_depth == 0 && g_tx_by_sp) sql_end_tx(1); return SQLITE_OK; }
    if (sql[0] == 'r' && sql[8] == 0) { g_rollbacks++; if (!g_tx_open) return SQLITE_ERROR; if (fail) { g_undo_failed = 1; return SQLITE_ERROR; } sql_end_tx(0); return SQLITE_OK; }
    if (sql[0] == 'r') {
        g_rollback_tos++; if (g_sp_depth <= 0) return SQLITE_ERROR; if (fail) { g_undo_failed = 1; return SQLITE_ERROR; }
        g_lost_writes += g_tx_writes - g_sp_mark[g_sp_depth - 1]; g_tx_writes = g_sp_mark[g_sp_depth - 1]; return SQLITE_OK;
    }
    return nondet_int();
}
int sqlite3_get_autocommit(sqlite3 *db) { return !g_tx_open; }
int sqlite3_prepare_v2(sqlite3 *db, const char *sql, int n, sqlite3_stmt **stmt, const char **tail) {
    if (nondet_int()) { *stmt = NULL; return SQLITE_ERROR; }
    *stmt = &g_stmt_pool[!((sql[0] == 's' || sql[0] == 'S') && (sql[1] == 'e' || sql[1] == 'E'))];
    return SQLITE_OK;
}
int sqlite3_step(sqlite3_stmt *s) {
    int rc = nondet_int();
    if (s != NULL && s->is_write && (rc == SQLITE_DONE || rc == SQLITE_ROW)) {
        g_write_steps++;
        if (g_tx_open) g_tx_writes++; else g_durable_writes++;
    }
    return rc;
}
int sqlite3_reset(sqlite3_stmt *s) { return nondet_int(); }
int sqlite3_clear_bindings(sqlite3_stmt *s) { return nondet_int(); }
int sqlite3_finalize(sqlite3_stmt *s) { if (s != NULL) g_finalized++; return nondet_int(); }
int sqlite3_bind_int(sqlite3_stmt *s, int i, int v) { return nondet_int(); }
int sqlite3_bind_int64(sqlite3_stmt *s, int i, sqlite3_int64 v) { return nondet_int(); }
int sqlite3_bind_text16(sqlite3_stmt *s, int i, const void *t, int n, void (*d)(void *)) { return nondet_int(); }
int sqlite3_bind_null(sqlite3_stmt *s, int i) { return nondet_int(); }
int sqlite3_bind_double(sqlite3_stmt *s, int i, double v) { return nondet_int(); }
int sqlite3_bind_blob(sqlite3_stmt *s, int i, const void *b, int n, void (*d)(void *)) { return nondet_int(); }
int sqlite3_changes(sqlite3 *db) { return nondet_int(); }
int sqlite3_column_int(sqlite3_stmt *s, int c) { return nondet_int(); }
#endif
