/* Reference bodies for the ICU string primitives the scanner uses (trusted models; semantics from the ICU API documentation).
 * Only compiled for CBMC: the native replay links the real ICU. */
#ifndef VERIF_ICU_PRIMS_H
#define VERIF_ICU_PRIMS_H
#ifndef VERIF_REPLAY
UChar *u_memchr(const UChar *s, UChar c, int32_t count) {
    for (int32_t i = 0; i < count; i++) if (s[i] == c) return (UChar *)(s + i);
    return NULL;
}
UChar *u_memmove(UChar *dest, const UChar *src, int32_t count) {
    if (dest < src) { for (int32_t i = 0; i < count; i++) dest[i] = src[i]; }
    else { for (int32_t i = count; i > 0; i--) dest[i - 1] = src[i - 1]; }
    return dest;
}
#endif
#endif
