#include <stdlib.h>
#include <string.h>
#include "config.h"
#include "internal/utils.h"
#ifndef MAXN
#define MAXN 256
#endif
size_t g_len;  /* ghost: position of the first NUL */
static int cif_has_whitespace(const UChar *src)
__CPROVER_requires(__CPROVER_is_fresh(src, MAXN * sizeof(UChar)))
__CPROVER_requires(g_len < MAXN && src[g_len] == 0)
__CPROVER_requires(__CPROVER_forall { size_t j; (j < MAXN) ==> ((j < g_len) ==> src[j] != 0) })
__CPROVER_assigns()
__CPROVER_ensures((__CPROVER_return_value != 0) == (__CPROVER_exists { size_t j; (j < MAXN) && (j < g_len) && src[j] <= 0x20 }))
;
#include "utils_annot.c"
void harness(void) { const UChar *s; cif_has_whitespace(s); }
