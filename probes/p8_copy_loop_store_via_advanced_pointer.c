#include <stddef.h>
#include <stdlib.h>
#define OFF(p) ((size_t)__CPROVER_POINTER_OFFSET(p))
#ifndef N
#define N 64
#endif
unsigned short *copy(const unsigned short *text, size_t n)
__CPROVER_requires(n > 0 && n <= N && __CPROVER_is_fresh(text, N*2))
__CPROVER_assigns()
__CPROVER_ensures(__CPROVER_return_value == NULL || __CPROVER_is_fresh(__CPROVER_return_value, (n+1)*2))
{
  unsigned short *buffer = malloc((n + 1) * 2);
  if (!buffer) return NULL;
  const unsigned short *in = text; const unsigned short *lim = text + n; unsigned short *out = buffer;
  while (in < lim)
  __CPROVER_assigns(in, out, __CPROVER_object_whole(buffer))
  __CPROVER_loop_invariant(__CPROVER_same_object(in, text) && OFF(in) % 2 == 0 && OFF(in) <= 2*n)
  __CPROVER_loop_invariant(__CPROVER_same_object(out, buffer) && OFF(out) == OFF(in))
  {
    unsigned short c = *(in++);
    *(out++) = (c == 0x0d) ? 0x0a : c;
  }
  *out = 0;
  return buffer;
}
void harness(void) { const unsigned short *t; size_t n; copy(t, n); }
