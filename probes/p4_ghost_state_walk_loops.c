#include <stdlib.h>
#include <string.h>
#include "config.h"
#include "cif.h"
#include "internal/utils.h"
#define MAXL 8
/* ghost state */
size_t g_n;            /* number of loops handed out */
size_t g_freed;        /* number of cif_loop_free calls */
size_t g_walked;       /* number of walk_loop calls */
int    g_stop_seen;    /* a walk_loop call returned something other than CONTINUE/SKIP_CURRENT */
int    g_bad;          /* walk_loop called after a stop */

int cif_container_get_all_loops(cif_container_tp *container, cif_loop_tp ***loops)
__CPROVER_requires(__CPROVER_w_ok(loops, sizeof(*loops)))
__CPROVER_assigns(*loops, g_n)
__CPROVER_ensures(__CPROVER_return_value == CIF_OK ==> (g_n <= MAXL && __CPROVER_is_fresh(*loops, (MAXL + 1) * sizeof(cif_loop_tp *)) && (*loops)[g_n] == NULL))
__CPROVER_ensures(__CPROVER_return_value == CIF_OK ==> __CPROVER_forall { size_t j; (j < MAXL) ==> ((j < g_n) ==> (*loops)[j] != NULL) })
;
void cif_loop_free(cif_loop_tp *loop)
__CPROVER_requires(loop != NULL)
__CPROVER_assigns(g_freed)
__CPROVER_ensures(g_freed == __CPROVER_old(g_freed) + 1)
;
static int walk_loop(cif_loop_tp *loop, cif_handler_tp *handler, void *context)
__CPROVER_requires(loop != NULL)
__CPROVER_assigns(g_walked, g_stop_seen, g_bad)
__CPROVER_ensures(g_walked == __CPROVER_old(g_walked) + 1)
__CPROVER_ensures(g_bad == (__CPROVER_old(g_bad) || __CPROVER_old(g_stop_seen)))
__CPROVER_ensures(g_stop_seen == (__CPROVER_old(g_stop_seen) || !(__CPROVER_return_value == CIF_TRAVERSE_CONTINUE || __CPROVER_return_value == CIF_TRAVERSE_SKIP_CURRENT)))
;
static int walk_loops(cif_container_tp *container, cif_handler_tp *handler, void *context)
__CPROVER_requires(g_freed == 0 && g_walked == 0 && g_stop_seen == 0 && g_bad == 0)
__CPROVER_assigns(g_n, g_freed, g_walked, g_stop_seen, g_bad)
__CPROVER_ensures(g_bad == 0)                                   /* no loop visited after a stop directive */
__CPROVER_ensures(g_n <= MAXL ==> (g_stop_seen || g_walked == g_freed))   /* every loop visited when nobody stopped */
;
#include "cif_annot.c"
void harness(void) { cif_container_tp *c; cif_handler_tp *h; void *ctx; walk_loops(c, h, ctx); }
