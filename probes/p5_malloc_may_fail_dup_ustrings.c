#include <stdlib.h>
#include <string.h>
#include "config.h"
#include "cif.h"
#include "internal/utils.h"
#define MAXS 6
size_t g_n;
UChar *cif_u_strdup(const UChar *src)
__CPROVER_requires(src != NULL)
__CPROVER_assigns()
__CPROVER_ensures(__CPROVER_return_value == NULL || __CPROVER_is_fresh(__CPROVER_return_value, 2))
;
static int dup_ustrings(UChar ***dest, UChar *src[])
__CPROVER_requires(__CPROVER_is_fresh(dest, sizeof(*dest)))
__CPROVER_requires(g_n <= MAXS && __CPROVER_is_fresh(src, (MAXS + 1) * sizeof(UChar *)) && src[g_n] == NULL)
__CPROVER_requires(__CPROVER_forall { size_t j; (j < MAXS) ==> ((j < g_n) ==> src[j] != NULL) })
__CPROVER_assigns(*dest)
__CPROVER_ensures(__CPROVER_return_value == CIF_OK || __CPROVER_return_value == CIF_MEMORY_ERROR)
;
#include "loop_annot.c"
void harness(void) { UChar ***d; UChar **s; dup_ustrings(d, s); }
