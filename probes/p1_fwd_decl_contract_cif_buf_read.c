#include <stdlib.h>
#include <string.h>
#include "config.h"
#include "internal/utils.h"

/* contract attached to a forward declaration (out of tree) */
static size_t cif_buf_read(read_buffer_tp *buf, void *dest, size_t max)
__CPROVER_requires(__CPROVER_is_fresh(buf, sizeof(*buf)))
__CPROVER_requires(buf->limit <= 64 && buf->position <= buf->limit)
__CPROVER_requires(__CPROVER_is_fresh(buf->start, buf->limit))
__CPROVER_requires(max <= 64 && __CPROVER_is_fresh(dest, max))
__CPROVER_assigns(buf->position, __CPROVER_object_whole(dest))
__CPROVER_ensures(__CPROVER_return_value == ((max < (__CPROVER_old(buf->limit) - __CPROVER_old(buf->position))) ? max : (__CPROVER_old(buf->limit) - __CPROVER_old(buf->position))))
__CPROVER_ensures(buf->position == __CPROVER_old(buf->position) + __CPROVER_return_value)
;

#include "/repo/src/value.c"

void harness(void) {
  read_buffer_tp *b; void *d; size_t m;
  cif_buf_read(b, d, m);
}
