#include <stddef.h>
struct sc { unsigned short *buffer; size_t limit; unsigned short *next; unsigned col; unsigned int cls[160]; unsigned int meta[29]; int ver; int (*cb)(int, void*); void *ud; };
int stub(int c, void *d) { int r; return r; }
#define OFF(p) ((size_t)__CPROVER_POINTER_OFFSET(p))
#define WF(s) ((s)->limit <= N && __CPROVER_same_object((s)->next,(s)->buffer) && OFF((s)->next)%2==0 && OFF((s)->next)/2 <= (s)->limit && (s)->cb == stub)
#ifndef N
#define N 64
#endif
int scan(struct sc *s)
__CPROVER_requires(__CPROVER_rw_ok(s->buffer, N*2) && WF(s))
__CPROVER_assigns(s->next, s->col, __CPROVER_object_whole(s->buffer))
__CPROVER_ensures(WF(s))
{
  unsigned short *top = s->buffer + s->limit;
  while (s->next < top)
  __CPROVER_assigns(s->next, s->col, __CPROVER_object_whole(s->buffer))
  __CPROVER_loop_invariant(WF(s) && top == s->buffer + s->limit)
  {
    unsigned short c = *(s->next);
    s->col += 1;
    if ((c < 160) ? (s->cls[c] == 0) : (c == 0xFFFE)) { int ev = s->cb(104, s->ud); if (ev) return ev; *(s->next) = 0xFFFD; }
    if ((s->ver < 2) && c > 0x7e) { int ev = s->cb(104, s->ud); if (ev) return ev; }
    s->next += 1;
    if (c < 160 && s->meta[s->cls[c] % 29] == 2) { s->next -= 1; break; }
  }
  return 0;
}
struct sc S; unsigned short BUF[N];
int (*g)(int, void*) = stub;
void harness(void) { S.buffer = BUF; scan(&S); }
