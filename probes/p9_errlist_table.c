#include <string.h>
#include "config.h"
#include "cif.h"
#include "cif_error.h"
#include "/repo/src/cif.c"
static int contains(const char *msg, const char *kw) {
  for (int i = 0; i < 80 && msg[i]; i++) { int j = 0; while (kw[j] && msg[i + j] == kw[j]) j++; if (!kw[j]) return 1; }
  return 0;
}
#define CHECK(code, kw) do { \
  __CPROVER_assert((code) < cif_nerr, #code " inside table"); \
  if ((code) < cif_nerr) { __CPROVER_assert(cif_errlist[code][0] != 0, #code " message non-empty"); \
  __CPROVER_assert(contains(cif_errlist[code], kw), #code " message mentions " kw); } } while (0)
void harness(void) {
  CHECK(CIF_OK, "no error"); CHECK(CIF_FINISHED, "finished"); CHECK(CIF_ERROR, "unspecified");
  CHECK(CIF_MEMORY_ERROR, "memory"); CHECK(CIF_INVALID_HANDLE, "handle"); CHECK(CIF_INTERNAL_ERROR, "internal");
  CHECK(CIF_ARGUMENT_ERROR, "argument"); CHECK(CIF_MISUSE, "use"); CHECK(CIF_NOT_SUPPORTED, "supported");
  CHECK(CIF_ENVIRONMENT_ERROR, "environment"); CHECK(CIF_CLIENT_ERROR, "application"); CHECK(CIF_DUP_BLOCKCODE, "duplicate");
  CHECK(CIF_NULL_KEY, "null table key");
}
