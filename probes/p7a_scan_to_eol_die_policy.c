#include <stdlib.h>
#include <string.h>
#include <stdio.h>
#include "config.h"
#include "cif.h"
#include "internal/utils.h"
#include "internal/value.h"
#ifndef BUFSZ
#define BUFSZ 64
#endif
#define OFF(p) ((size_t)__CPROVER_POINTER_OFFSET(p))

/* ghost: error-callback contract (C03): line >= 1, text NULL or readable for length */
int stub_err_cb(int code, size_t line, size_t column, const UChar *text, size_t length, void *data)
{ __CPROVER_assert(line >= 1, "C03 callback line>=1"); __CPROVER_assert(text == NULL || __CPROVER_r_ok(text, length * sizeof(UChar)), "C03 callback text readable"); return code; }
#define SCANNER_WF(s) ( \
    (s)->buffer_size == BUFSZ && (s)->buffer_limit <= BUFSZ \
 && __CPROVER_same_object((s)->next_char, (s)->buffer) && OFF((s)->next_char) % 2 == 0 && OFF((s)->next_char)/2 <= (s)->buffer_limit \
 && __CPROVER_same_object((s)->text_start, (s)->buffer) && OFF((s)->text_start) % 2 == 0 && OFF((s)->text_start) <= OFF((s)->next_char) \
 && __CPROVER_same_object((s)->tvalue_start, (s)->buffer) && OFF((s)->tvalue_start) % 2 == 0 && OFF((s)->tvalue_start) >= OFF((s)->text_start) && OFF((s)->tvalue_start) <= OFF((s)->next_char) \
 && (s)->line >= 1 && ((s)->cif_version == 1 || (s)->cif_version == 2) \
 && (s)->error_callback == stub_err_cb )

static int get_more_chars(struct scanner_s *scanner)
__CPROVER_requires(SCANNER_WF(scanner))
__CPROVER_assigns(scanner->at_eof)
__CPROVER_ensures(__CPROVER_return_value == -1 /* model: only EOF in this probe */)
;

static int scan_to_eol(struct scanner_s *scanner)
__CPROVER_requires(__CPROVER_rw_ok(scanner->buffer, BUFSZ * sizeof(UChar)))
__CPROVER_requires(SCANNER_WF(scanner))
__CPROVER_requires(OFF(scanner->next_char) > 0)
__CPROVER_assigns(scanner->next_char, scanner->column, scanner->tvalue_length, scanner->at_eof)
__CPROVER_ensures(__CPROVER_return_value != 0 || (SCANNER_WF(scanner) && scanner->tvalue_length == (OFF(scanner->next_char) - OFF(scanner->tvalue_start))/2))
;
#include "parser_annot6.c"
cif_parse_error_callback_tp g_cb = stub_err_cb;
struct scanner_s S; UChar BUF[BUFSZ];
void harness(void) { S.buffer = BUF; scan_to_eol(&S); }
