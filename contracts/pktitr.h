/*
 * C06 (and C05 for the same functions): contracts for the packet-iterator life cycle of /repo/src/pktitr.c over the ghost
 * transaction model of stubs/sqlite_model.h.
 */
#ifndef VERIF_CONTRACTS_PKTITR_H
#define VERIF_CONTRACTS_PKTITR_H
#include "config.h"
#include <stdlib.h>
#include <string.h>
#include "cif.h"
#include "internal/ciftypes.h"
#include "internal/utils.h"
#include "common.h"
#include "sqlite_model.h"
#include "sql_preds.h"

int g_cat_kind;      /* ghost input: what cif_loop_get_category reports: 0 = error, 1 = scalar loop (""), 2 = other, 3 = NULL category */
#define ITER_OK(it) (__CPROVER_rw_ok(it, sizeof(*(it))) && (it)->loop != NULL && __CPROVER_r_ok((it)->loop, sizeof(cif_loop_tp)) && (it)->loop->container != NULL \
    && __CPROVER_r_ok((it)->loop->container, sizeof(cif_container_tp)) && (it)->loop->container->cif != NULL && __CPROVER_rw_ok((it)->loop->container->cif, sizeof(cif_tp)))

int cif_loop_get_category(cif_loop_tp *loop, UChar **category)
__CPROVER_requires(loop != NULL && __CPROVER_rw_ok(category, sizeof(*category)))
__CPROVER_assigns(*category)
__CPROVER_ensures(g_cat_kind == 0 ? (RET != CIF_OK && RET > 0) : RET == CIF_OK)
__CPROVER_ensures((RET == CIF_OK && g_cat_kind == 3) ==> *category == NULL)
__CPROVER_ensures((RET == CIF_OK && g_cat_kind != 3) ==> (__CPROVER_is_fresh(*category, 2 * sizeof(UChar)) && ((*category)[0] == 0) == (g_cat_kind == 1)))
;

/* remove acts only on the packet most recently delivered; afterwards there is no such packet any more */
int cif_pktitr_remove_packet(cif_pktitr_tp *iterator)
__CPROVER_requires(ITER_OK(iterator) && SQL_ENTRY)
__CPROVER_assigns(G_SQL, iterator->previous_row_num, iterator->loop->container->cif->remove_packet_stmt, iterator->loop->container->cif->reset_packet_num_stmt)
/* refused without touching the database when the iterator is stale or has no current packet */
__CPROVER_ensures(!OLD(g_tx_open) ==> (RET == CIF_INVALID_HANDLE && g_write_steps == OLD(g_write_steps)))
__CPROVER_ensures((OLD(g_tx_open) && OLD(iterator->previous_row_num) <= 0) ==> (RET == CIF_MISUSE && g_write_steps == OLD(g_write_steps) && g_saves == OLD(g_saves)))
/* success: the current packet is gone, for every kind of loop */
__CPROVER_ensures(RET == CIF_OK ==> (iterator->previous_row_num == -1 && OLD(iterator->previous_row_num) > 0 && SQL_NESTED_SUCCESS))
/* failure (C05): the iterator still has its current packet and the database is as it was */
__CPROVER_ensures(RET != CIF_OK ==> (iterator->previous_row_num == OLD(iterator->previous_row_num) && SQL_UNCHANGED_BY_FAILED_CALL))
__CPROVER_ensures(g_commits == OLD(g_commits) && g_rollbacks == OLD(g_rollbacks))
;

/* update: same guards */
int cif_pktitr_update_packet(cif_pktitr_tp *iterator, cif_packet_tp *packet)
/* the packet is empty or has a single entry, and the iterator's name set is empty: the paths that need a populated uthash table are outside this contract */
__CPROVER_requires(ITER_OK(iterator) && packet != NULL && __CPROVER_r_ok(packet, sizeof(*packet)) && SQL_ENTRY && iterator->name_set == NULL
    && (packet->map.head == NULL || (__CPROVER_r_ok(packet->map.head, sizeof(struct entry_s)) && packet->map.head->hh.next == NULL)))
__CPROVER_assigns(G_SQL, iterator->loop->container->cif->update_value_stmt)
__CPROVER_ensures(!OLD(g_tx_open) ==> (RET == CIF_INVALID_HANDLE && g_write_steps == OLD(g_write_steps)))
__CPROVER_ensures((OLD(g_tx_open) && iterator->previous_row_num <= 0) ==> (RET == CIF_MISUSE && g_write_steps == OLD(g_write_steps) && g_saves == OLD(g_saves)))
__CPROVER_ensures(RET == CIF_OK ==> SQL_NESTED_SUCCESS)
/* an item that does not belong to the iterator's loop is refused, nothing written */
__CPROVER_ensures((OLD(g_tx_open) && iterator->previous_row_num > 0 && packet->map.head != NULL) ==> (RET != CIF_OK && g_write_steps == OLD(g_write_steps)))
__CPROVER_ensures(RET != CIF_OK ==> SQL_UNCHANGED_BY_FAILED_CALL)
__CPROVER_ensures(g_commits == OLD(g_commits) && g_rollbacks == OLD(g_rollbacks))
;

/* close commits (falling back to rollback), abort rolls back; either way the iterator is released and no transaction stays open unless SQLite refuses both */
int cif_pktitr_close(cif_pktitr_tp *iterator)
__CPROVER_requires(ITER_OK(iterator) && iterator->item_names == NULL && iterator->name_set == NULL && g_tx_open && SQL_ENTRY && !g_tx_by_sp)
__CPROVER_assigns(G_SQL)
__CPROVER_frees(iterator, iterator->stmt)
__CPROVER_ensures(g_commits == OLD(g_commits) + 1 && __CPROVER_was_freed(iterator))
__CPROVER_ensures(RET == CIF_OK ==> (!g_tx_open && g_durable_writes == OLD(g_durable_writes) + OLD(g_tx_writes) && g_lost_writes == OLD(g_lost_writes) && g_rollbacks == OLD(g_rollbacks)))
__CPROVER_ensures(RET != CIF_OK ==> (RET == CIF_ERROR && g_rollbacks == OLD(g_rollbacks) + 1 && g_durable_writes == OLD(g_durable_writes)))
;
int cif_pktitr_abort(cif_pktitr_tp *iterator)
__CPROVER_requires(ITER_OK(iterator) && iterator->item_names == NULL && iterator->name_set == NULL && g_tx_open && SQL_ENTRY && !g_tx_by_sp)
__CPROVER_assigns(G_SQL)
__CPROVER_frees(iterator, iterator->stmt)
__CPROVER_ensures(g_rollbacks == OLD(g_rollbacks) + 1 && g_commits == OLD(g_commits) && g_durable_writes == OLD(g_durable_writes) && __CPROVER_was_freed(iterator))
__CPROVER_ensures(RET == CIF_OK ==> (!g_tx_open && g_lost_writes == OLD(g_lost_writes) + OLD(g_tx_writes)))
__CPROVER_ensures(RET == CIF_OK || RET == CIF_ERROR)
;
#endif
