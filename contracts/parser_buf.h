/*
 * C08 / C01 / C03: contract of get_more_chars() (parser.c) - the scan-buffer management every token goes through.
 */
#ifndef VERIF_CONTRACTS_PARSER_BUF_H
#define VERIF_CONTRACTS_PARSER_BUF_H
#include "config.h"
#include <unicode/ustring.h>
#include "cif.h"
#include "internal/utils.h"
#include "common.h"
#define OLD(x) __CPROVER_old(x)
#define RET __CPROVER_return_value
/* parser.c's private end-of-input code (the harness statically asserts that it matches) */
#define SPEC_CIF_EOF (-1)
#ifndef MAXBUF
#define MAXBUF 64            /* modelled maximum size of the scan buffer object, in code units (the real initial size is 131200) */
#endif
#define UIDX(p) (OFF(p) / sizeof(UChar))

/* ghost inputs */
long g_read_n;               /* what read_func delivers: <0 error, 0 end of input, >0 number of code units */
int g_read_error;            /* error code read_func reports when g_read_n < 0 */
int g_no_cr;                 /* the delivered units contain no CR (buffer-bookkeeping job) */
unsigned g_read_calls; UChar *g_read_dest; long g_read_count;
UChar *g_refill_at;           /* ghost: scan position right after the latest buffer refill */

/* scanner well-formedness as far as the buffer is concerned */
#define SCANBUF_WF(s) ( (s)->buffer_size >= 1 && (s)->buffer_size <= MAXBUF && (s)->buffer_limit <= (s)->buffer_size \
    && __CPROVER_rw_ok((s)->buffer, (s)->buffer_size * sizeof(UChar)) \
    && __CPROVER_same_object((s)->text_start, (s)->buffer) && __CPROVER_same_object((s)->tvalue_start, (s)->buffer) && __CPROVER_same_object((s)->next_char, (s)->buffer) \
    && OFF((s)->buffer) == 0 && OFF((s)->text_start) % 2 == 0 && OFF((s)->tvalue_start) % 2 == 0 && OFF((s)->next_char) % 2 == 0 \
    && UIDX((s)->text_start) <= UIDX((s)->tvalue_start) && UIDX((s)->tvalue_start) <= UIDX((s)->next_char) && UIDX((s)->next_char) <= (s)->buffer_limit )

/* assumed contract of the character source */
ssize_t stub_read_func(void *char_source, UChar *dest, ssize_t count, int *error_code)
__CPROVER_requires(count >= 1 && __CPROVER_w_ok(dest, (size_t)count * sizeof(UChar)) && __CPROVER_w_ok(error_code, sizeof(int)))
__CPROVER_assigns(*error_code, __CPROVER_object_upto(dest, (size_t)count * sizeof(UChar)), g_read_calls, g_read_dest, g_read_count)
__CPROVER_ensures(RET == (g_read_n < count ? g_read_n : count) && g_read_calls == OLD(g_read_calls) + 1 && g_read_dest == dest && g_read_count == count)
__CPROVER_ensures(RET < 0 ==> *error_code == g_read_error)
;

/* ICU string primitives: assumed contracts (u_memchr: first occurrence or NULL) */
UChar *u_memchr(const UChar *s, UChar c, int32_t count)
__CPROVER_requires(count >= 0 && (count == 0 || __CPROVER_r_ok(s, (size_t)count * sizeof(UChar))))
__CPROVER_assigns()
__CPROVER_ensures(RET == NULL || (__CPROVER_same_object(RET, s) && UIDX(RET) >= UIDX(s) && UIDX(RET) < UIDX(s) + (size_t)count))
__CPROVER_ensures((g_no_cr && c == 0x0D) ==> RET == NULL)
;
UChar *u_memmove(UChar *dest, const UChar *src, int32_t count)
__CPROVER_requires(count >= 0 && (count == 0 || (__CPROVER_w_ok(dest, (size_t)count * sizeof(UChar)) && __CPROVER_r_ok(src, (size_t)count * sizeof(UChar)))))
__CPROVER_assigns(__CPROVER_object_upto(dest, (size_t)count * sizeof(UChar)))
__CPROVER_ensures(RET == dest)
;

/* libc block moves: assumed contracts without content (this job is about pointer bookkeeping; CBMC's models copy with a symbolic length) */
void *memmove(void *dest, const void *src, size_t n)
__CPROVER_requires(n == 0 || (__CPROVER_w_ok(dest, n) && __CPROVER_r_ok(src, n)))
__CPROVER_assigns(__CPROVER_object_upto(dest, n))
__CPROVER_ensures(RET == dest)
;
void *memcpy(void *dest, const void *src, size_t n)
__CPROVER_requires(n == 0 || (__CPROVER_w_ok(dest, n) && __CPROVER_r_ok(src, n)))
__CPROVER_assigns(__CPROVER_object_upto(dest, n))
__CPROVER_ensures(RET == dest)
;

static int get_more_chars(struct scanner_s *scanner)
__CPROVER_requires(__CPROVER_rw_ok(scanner, sizeof(*scanner)) && SCANBUF_WF(scanner) && scanner->read_func == stub_read_func)
#ifndef VERIF_GMC_AS_CALLEE
__CPROVER_requires(scanner->buffer_size * 2 <= MAXBUF && g_read_n <= MAXBUF && g_read_error > 0)   /* a character source reports CIF error codes */
__CPROVER_assigns(scanner->buffer, scanner->buffer_size, scanner->buffer_limit, scanner->next_char, scanner->text_start, scanner->tvalue_start, scanner->at_eof,
                  __CPROVER_object_whole(scanner->buffer), g_read_calls, g_read_dest, g_read_count)
#else
/* used as a callee contract by the scanner jobs, with two restrictions that are listed as assumptions in their evidence: the buffer object is not reallocated
 * (tokens shorter than the buffer: the growth branch is outside those jobs; compaction and appending are inside), and beyond the buffer bound of the enforce job
 * the contract is assumed.  g_refill_at records where scanning resumes (the content of the units before it is not described by this contract) */
__CPROVER_requires(g_read_n <= MAXBUF && g_read_error > 0)
__CPROVER_assigns(scanner->buffer_limit, scanner->next_char, scanner->text_start, scanner->tvalue_start, scanner->at_eof,
                  __CPROVER_object_whole(scanner->buffer), g_read_calls, g_read_dest, g_read_count, g_refill_at)
__CPROVER_ensures(g_refill_at == scanner->next_char)
#endif
#ifndef VERIF_GMC_AS_CALLEE
__CPROVER_frees(scanner->buffer)
#endif
/* result protocol */
__CPROVER_ensures(RET == CIF_OK || RET == SPEC_CIF_EOF || RET == CIF_MEMORY_ERROR || (OLD(scanner->at_eof) == 0 && g_read_n < 0 && RET == g_read_error))
/* whatever happened to the buffer (reset, compaction, growth, plain append), the scanner stays well formed ... */
__CPROVER_ensures((RET != CIF_MEMORY_ERROR || g_read_calls != OLD(g_read_calls)) ==> SCANBUF_WF(scanner))
/* ... and the text scanned so far keeps its shape: token-relative offsets are preserved (C08: independence of buffer boundaries) */
__CPROVER_ensures((RET != CIF_MEMORY_ERROR || g_read_calls != OLD(g_read_calls)) ==> (UIDX(scanner->next_char) - UIDX(scanner->text_start) == UIDX(OLD(scanner->next_char)) - UIDX(OLD(scanner->text_start))
        && UIDX(scanner->tvalue_start) - UIDX(scanner->text_start) == UIDX(OLD(scanner->tvalue_start)) - UIDX(OLD(scanner->text_start))))
/* the character source is asked at most once, for at least one unit, into the free tail of the buffer, and never after end of input */
__CPROVER_ensures(g_read_calls - OLD(g_read_calls) <= 1 && (OLD(scanner->at_eof) ==> g_read_calls == OLD(g_read_calls)))
__CPROVER_ensures((g_read_calls != OLD(g_read_calls)) ==> (g_read_count >= 1 && __CPROVER_same_object(g_read_dest, scanner->buffer)
        && UIDX(g_read_dest) + (size_t)g_read_count <= scanner->buffer_size))
/* data are appended only on CIF_OK; end of input is sticky */
__CPROVER_ensures(RET == SPEC_CIF_EOF ==> scanner->at_eof != 0)
__CPROVER_ensures((RET == CIF_OK && g_no_cr) ==> scanner->buffer_limit == UIDX(g_read_dest) + (size_t)(g_read_n < g_read_count ? g_read_n : g_read_count))
__CPROVER_ensures((RET == CIF_MEMORY_ERROR && g_read_calls == OLD(g_read_calls)) ==> (scanner->buffer == OLD(scanner->buffer) && scanner->buffer_limit == OLD(scanner->buffer_limit) && scanner->next_char == OLD(scanner->next_char)
        && scanner->text_start == OLD(scanner->text_start) && scanner->tvalue_start == OLD(scanner->tvalue_start)))
;

/* ---- get_first_char: the very first unit (and, after a CR, possibly one more) --------------------------------------------------- */
unsigned g_fc_calls; long g_fc_n[2]; UChar g_fc_ch[2]; long g_fc_count[2];   /* ghost: what the source delivers on the first / second request */
static int get_first_char(struct scanner_s *scanner)
__CPROVER_requires(__CPROVER_rw_ok(scanner, sizeof(*scanner)) && scanner->buffer_size >= 2 && scanner->buffer_size <= MAXBUF && scanner->buffer_limit == 0 && OFF(scanner->buffer) == 0
        && __CPROVER_rw_ok(scanner->buffer, scanner->buffer_size * sizeof(UChar)) && scanner->error_callback != NULL && g_fc_calls == 0 && scanner->char_class[0x0D] != NO_CLASS)
__CPROVER_assigns(scanner->buffer_limit, scanner->at_eof, scanner->tvalue_start, __CPROVER_object_whole(scanner->buffer), g_fc_calls, g_fc_count)
/* C08: nothing the character source delivered is dropped: the buffer holds the first unit and every unit of a second request, except
 * that a CR LF pair counts as the single newline it denotes */
__CPROVER_ensures((RET == CIF_OK && g_fc_calls == 1) ==> scanner->buffer_limit == 1)
__CPROVER_ensures((RET == CIF_OK && g_fc_calls == 2 && g_fc_n[1] > 0) ==> scanner->buffer_limit == 1 + (size_t)(g_fc_n[1] < g_fc_count[1] ? g_fc_n[1] : g_fc_count[1]) - (g_fc_ch[1] == 0x0A ? 1 : 0))
__CPROVER_ensures((RET == CIF_OK && g_fc_ch[0] == 0x0D) ==> scanner->buffer[0] == 0x0A)
__CPROVER_ensures(RET == CIF_OK ==> scanner->buffer_limit <= scanner->buffer_size)
;
#endif
