/*
 * C14: contracts for the walker of /repo/src/cif.c (cif_walk, walk_container, walk_loops, walk_loop,
 * walk_packet, walk_item) and assumed contracts for the getters / release functions it uses.
 *
 * Ghost monitors (written only by the handler stubs in harness/cif_walk_h.c and by callee contracts):
 *  g_stopped / g_stop_code    a handler answered CIF_TRAVERSE_END or an error code, or a getter / iterator
 *                             failed.  From then on no callback and no child walk may happen: it is a
 *                             precondition of every walk_* function and an assertion in every stub.
 *  g_<kind>_calls/_sib/_last  per sibling group (items of a packet, packets of a loop, loops of a container,
 *                             frames at the watched depth g_wd, blocks): children walked, how many of them
 *                             answered "no more siblings" (SKIP_SIBLINGS, END, error), latest answer.
 *                             "No sibling visited after such an answer"  <=>  at most one, and it is the latest.
 *  g_<kind>_arg               the handle passed to the latest child walk: with the call counter it pins every visit to
 *                             its own array slot (each child once, in order).
 *  g_self, g_self_*           the element whose walk_* function is being verified: its start callback comes
 *                             exactly once and before any child, its end callback at most once and after all.
 */
#ifndef VERIF_CONTRACTS_CIF_WALK_H
#define VERIF_CONTRACTS_CIF_WALK_H
#include "config.h"
#include "cif.h"
#include "internal/utils.h"
#include "common.h"

#ifndef MAXK
#define MAXK 6     /* modelled maximum number of handles in one array handed out by a getter */
#endif

/* finite conjunction over the MAXK slots of a handle array (pointer-valued quantifier bodies are mis-evaluated by cbmc 6.11) */
#define EACHK_1(F) (F(0))
#define EACHK_2(F) (F(0) && F(1))
#define EACHK_3(F) (EACHK_2(F) && F(2))
#define EACHK_4(F) (EACHK_3(F) && F(3))
#define EACHK_6(F) (EACHK_4(F) && F(4) && F(5))
#define EACHK_8(F) (EACHK_6(F) && F(6) && F(7))
#define EACHK_12(F) (EACHK_8(F) && F(8) && F(9) && F(10) && F(11))
#define EACHK_CAT2(n) EACHK_##n
#define EACHK_CAT(n) EACHK_CAT2(n)
#define EACH_K(F) EACHK_CAT(MAXK)(F)
#define NAV_GO(r)   ((r) == CIF_TRAVERSE_CONTINUE || (r) == CIF_TRAVERSE_SKIP_CURRENT)
#define NAV_SIB(r)  ((r) == CIF_TRAVERSE_SKIP_SIBLINGS)
#define IS_STOP(r)  (!NAV_GO(r) && !NAV_SIB(r))       /* CIF_TRAVERSE_END or any error code */
#define SIBSTOP(r)  (!NAV_GO(r))                      /* SKIP_SIBLINGS, END, error */
#define OLD(x) __CPROVER_old(x)
#define RET __CPROVER_return_value

int g_stopped, g_stop_code;
void *g_ctx;
int g_wd;
int g_depth_limit;   /* modelled maximum nesting depth of save frames (the recursion adds 1 per level) */
unsigned g_item_calls, g_item_sib;     int g_item_last;
unsigned g_packet_calls, g_packet_sib; int g_packet_last;
unsigned g_loop_calls, g_loop_sib;     int g_loop_last;
unsigned g_frame_calls, g_frame_sib;   int g_frame_last;
unsigned g_block_calls, g_block_sib;   int g_block_last;
/* the handle / value passed to the latest child walk of each sibling group (identity and order of the visits) */
void *g_item_arg, *g_packet_arg, *g_loop_arg, *g_frame_arg, *g_block_arg;
unsigned g_nloops, g_nframes, g_nblocks;
int g_nloops_got, g_nframes_got, g_nblocks_got;   /* the getter returned CIF_OK */
int g_npackets_left;
unsigned g_loops_freed, g_containers_freed, g_itr_closed, g_itr_opened, g_packets_freed;
/* layout ghosts for the item chain of the packet under verification (harness-built array) */
struct entry_s *g_ents; unsigned g_nents;
/* keyed on the container under verification (g_self): how often walk_loops ran for it, how many frame walks had happened then,
 * and how many frames its getter announced (children of the recursion leave these alone) */
unsigned g_self_loops_walks, g_self_frames_at_loops, g_self_nframes; int g_self_frames_got;
/* element under verification */
void *g_self;
int g_self_start_ret;
unsigned g_self_start_at_end;
unsigned g_self_start, g_self_end, g_self_start_snap_a, g_self_start_snap_b, g_self_end_snap_a, g_self_end_snap_b;

#define STOP_POST(ret) ((g_stopped != 0) == IS_STOP(ret) && (IS_STOP(ret) ==> g_stop_code == (ret)))
#define GROUP_POST(k, ret, arg) (g_##k##_calls == OLD(g_##k##_calls) + 1 && g_##k##_last == (ret) && g_##k##_arg == (void *)(arg) \
        && g_##k##_sib == OLD(g_##k##_sib) + (SIBSTOP(ret) ? 1 : 0))
#define GROUP_SAME(k) (g_##k##_calls == OLD(g_##k##_calls) && g_##k##_last == OLD(g_##k##_last) && g_##k##_sib == OLD(g_##k##_sib) && g_##k##_arg == OLD(g_##k##_arg))
/* C14 for the sibling group k of the element being verified: nobody is walked after a "no more siblings" answer */
#define NO_SIBLING_AFTER_STOP(k) (g_##k##_sib - OLD(g_##k##_sib) <= 1 && (g_##k##_sib != OLD(g_##k##_sib) ==> SIBSTOP(g_##k##_last)))
/* Call-event bookkeeping: the counters of a sibling group are monitor state attached to the *call event* of a child
 * walk; real code never reads or writes them.  They are therefore stated for every call except the one on the element
 * under verification (g_self), whose own call event lies outside the function being enforced. */
#define NOTSELF(p, clause) ((void *)(p) == g_self || (clause))
#define HANDLER_OK(h) (__CPROVER_r_ok(h, sizeof(cif_handler_tp)))

#define G_ITEM   g_item_calls, g_item_sib, g_item_last, g_item_arg
#define G_PACKET g_packet_calls, g_packet_sib, g_packet_last, g_packet_arg
#define G_LOOP   g_loop_calls, g_loop_sib, g_loop_last, g_loop_arg
#define G_FRAME  g_frame_calls, g_frame_sib, g_frame_last, g_frame_arg
#define G_BLOCK  g_block_calls, g_block_sib, g_block_last, g_block_arg
#define G_STOP   g_stopped, g_stop_code
#define G_SELF(p) ; (void *)(p) == g_self: g_self_start, g_self_end, g_self_start_ret, g_self_start_snap_a, g_self_start_snap_b, \
        g_self_end_snap_a, g_self_end_snap_b, g_self_start_at_end, g_self_loops_walks, g_self_frames_at_loops, g_self_nframes, g_self_frames_got
#define G_ITER   g_npackets_left, g_itr_closed, g_itr_opened, g_packets_freed
#define G_LOOPS  g_nloops, g_nloops_got, g_loops_freed
#define G_FRAMES g_nframes, g_nframes_got, g_containers_freed

/* ---- the walker -------------------------------------------------------------------------------- */

static int walk_item(UChar *name, cif_value_tp *value, cif_handler_tp *handler, void *context)
__CPROVER_requires(HANDLER_OK(handler) && g_stopped == 0 && context == g_ctx)
__CPROVER_assigns(G_STOP, G_ITEM G_SELF(value))
__CPROVER_ensures(STOP_POST(RET))
__CPROVER_ensures(NOTSELF(value, GROUP_POST(item, RET, value)))
__CPROVER_ensures(handler->handle_item == NULL ==> RET == CIF_TRAVERSE_CONTINUE)
/* exactly one handle_item(name, value, context) callback when a handler is registered */
__CPROVER_ensures((void *)value == g_self ==> g_self_start == OLD(g_self_start) + (handler->handle_item != NULL ? 1 : 0))
;

static int walk_packet(cif_packet_tp *packet, cif_handler_tp *handler, void *context)
__CPROVER_requires(HANDLER_OK(handler) && g_stopped == 0 && context == g_ctx && packet != NULL)
__CPROVER_assigns(G_STOP, G_ITEM, G_PACKET G_SELF(packet))
__CPROVER_ensures(STOP_POST(RET))
__CPROVER_ensures(NOTSELF(packet, GROUP_POST(packet, RET, packet)))
__CPROVER_ensures(NO_SIBLING_AFTER_STOP(item))
;

static int walk_loop(cif_loop_tp *loop, cif_handler_tp *handler, void *context)
__CPROVER_requires(HANDLER_OK(handler) && g_stopped == 0 && context == g_ctx && loop != NULL)
__CPROVER_assigns(G_STOP, G_ITEM, G_PACKET, G_LOOP, G_ITER G_SELF(loop))
__CPROVER_ensures(STOP_POST(RET))
__CPROVER_ensures(NOTSELF(loop, GROUP_POST(loop, RET, loop)))
__CPROVER_ensures(NO_SIBLING_AFTER_STOP(packet))
;

static int walk_loops(cif_container_tp *container, cif_handler_tp *handler, void *context)
__CPROVER_requires(HANDLER_OK(handler) && g_stopped == 0 && context == g_ctx && container != NULL)
__CPROVER_assigns(G_STOP, G_ITEM, G_PACKET, G_LOOP, G_ITER, G_LOOPS; (void *)container == g_self: g_self_loops_walks, g_self_frames_at_loops)
__CPROVER_ensures(STOP_POST(RET))
__CPROVER_ensures(NO_SIBLING_AFTER_STOP(loop))
/* the answer handed to walk_container tells it whether a loop cut the group short */
__CPROVER_ensures((g_loop_sib != OLD(g_loop_sib)) == SIBSTOP(RET) || (g_loop_calls == OLD(g_loop_calls) && IS_STOP(RET)))
/* every loop handed out by the getter is walked, in array order, unless the group was cut short */
__CPROVER_ensures((!IS_STOP(RET) && g_loop_sib == OLD(g_loop_sib)) ==> g_loop_calls == OLD(g_loop_calls) + g_nloops)
/* every handle is released exactly once on every path */
__CPROVER_ensures(g_loop_calls != OLD(g_loop_calls) || !IS_STOP(RET) ==> g_loops_freed == OLD(g_loops_freed) + g_nloops)
/* call-event bookkeeping for the container being verified by the walk_container job (vacuous in walk_loops' own job, where g_self is NULL) */
__CPROVER_ensures((void *)container == g_self ==> (g_self_loops_walks == OLD(g_self_loops_walks) + 1 && g_self_frames_at_loops == OLD(g_frame_calls)))
__CPROVER_ensures(GROUP_SAME(frame) && GROUP_SAME(block))
;

static int walk_container(cif_container_tp *container, int depth, cif_handler_tp *handler, void *context)
__CPROVER_requires(HANDLER_OK(handler) && g_stopped == 0 && context == g_ctx && container != NULL && depth >= 0 && depth <= g_depth_limit && g_depth_limit < 1000000)
__CPROVER_assigns(G_STOP, G_ITEM, G_PACKET, G_LOOP, G_ITER, G_LOOPS, G_FRAME, G_FRAMES, G_BLOCK G_SELF(container))
__CPROVER_ensures(STOP_POST(RET))
__CPROVER_ensures(NOTSELF(container, depth == g_wd ==> GROUP_POST(frame, RET, container)))
__CPROVER_ensures(depth > g_wd ==> GROUP_SAME(frame))
__CPROVER_ensures(NOTSELF(container, depth == 0 ==> GROUP_POST(block, RET, container)))
__CPROVER_ensures(depth > 0 ==> GROUP_SAME(block))
/* C14 for this container's save frames (they live at depth+1) */
__CPROVER_ensures(depth + 1 == g_wd ==> NO_SIBLING_AFTER_STOP(frame))
;

int cif_walk(cif_tp *cif, cif_handler_tp *handler, void *context)
__CPROVER_requires(HANDLER_OK(handler) && g_stopped == 0 && context == g_ctx)
__CPROVER_assigns(G_STOP, G_ITEM, G_PACKET, G_LOOP, G_ITER, G_LOOPS, G_FRAME, G_FRAMES, G_BLOCK, g_nblocks, g_nblocks_got G_SELF(cif))
/* CIF_OK for every combination of navigation answers (END included); an error code is returned unchanged */
__CPROVER_ensures(g_stopped == 0 ==> RET == CIF_OK)
__CPROVER_ensures(g_stopped != 0 ==> RET == (g_stop_code == CIF_TRAVERSE_END ? CIF_OK : g_stop_code))
__CPROVER_ensures(NO_SIBLING_AFTER_STOP(block))
;

/* ---- assumed contracts of the getters / release functions (trusted: "they return what is stored") ---- */

int cif_container_get_all_loops(cif_container_tp *container, cif_loop_tp ***loops)
__CPROVER_requires(container != NULL && __CPROVER_w_ok(loops, sizeof(*loops)))
__CPROVER_assigns(*loops, g_nloops, g_nloops_got, G_STOP)
__CPROVER_ensures(g_nloops_got == (RET == CIF_OK ? 1 : 0))
__CPROVER_ensures(RET == CIF_OK ==> (g_nloops <= MAXK && __CPROVER_is_fresh(*loops, (MAXK + 1) * sizeof(cif_loop_tp *)) && (*loops)[g_nloops] == NULL))
#define F_NONNULL_loop(j) (!((j) < g_nloops) || ((*loops)[j] != NULL && (void *)(*loops)[j] != g_self))   /* handles are new objects */
__CPROVER_ensures(RET == CIF_OK ==> EACH_K(F_NONNULL_loop))
__CPROVER_ensures(RET == CIF_OK ==> (g_stopped == OLD(g_stopped) && g_stop_code == OLD(g_stop_code)))
__CPROVER_ensures(RET != CIF_OK ==> (RET > 0 && IS_STOP(RET) && g_stopped == 1 && g_stop_code == RET)   /* library functions return CIF result codes (>= 0), never traversal directives */)
;

int cif_container_get_all_frames(cif_container_tp *container, cif_container_tp ***frames)
__CPROVER_requires(container != NULL && __CPROVER_w_ok(frames, sizeof(*frames)))
__CPROVER_assigns(*frames, g_nframes, g_nframes_got, G_STOP; (void *)container == g_self: g_self_nframes, g_self_frames_got)
__CPROVER_ensures((void *)container == g_self ==> (g_self_nframes == g_nframes && g_self_frames_got == (RET == CIF_OK ? 1 : 0)))
__CPROVER_ensures(g_nframes_got == (RET == CIF_OK ? 1 : 0))
__CPROVER_ensures(RET == CIF_OK ==> (g_nframes <= MAXK && __CPROVER_is_fresh(*frames, (MAXK + 1) * sizeof(cif_container_tp *)) && (*frames)[g_nframes] == NULL))
#define F_NONNULL_frame(j) (!((j) < g_nframes) || ((*frames)[j] != NULL && (void *)(*frames)[j] != g_self))   /* handles are new objects */
__CPROVER_ensures(RET == CIF_OK ==> EACH_K(F_NONNULL_frame))
__CPROVER_ensures(RET == CIF_OK ==> (g_stopped == OLD(g_stopped) && g_stop_code == OLD(g_stop_code)))
__CPROVER_ensures(RET != CIF_OK ==> (RET > 0 && IS_STOP(RET) && g_stopped == 1 && g_stop_code == RET)   /* library functions return CIF result codes (>= 0), never traversal directives */)
;

int cif_get_all_blocks(cif_tp *cif, cif_container_tp ***blocks)
__CPROVER_requires(__CPROVER_w_ok(blocks, sizeof(*blocks)))
__CPROVER_assigns(*blocks, g_nblocks, g_nblocks_got, G_STOP)
__CPROVER_ensures(g_nblocks_got == (RET == CIF_OK ? 1 : 0))
__CPROVER_ensures(RET == CIF_OK ==> (g_nblocks <= MAXK && __CPROVER_is_fresh(*blocks, (MAXK + 1) * sizeof(cif_container_tp *)) && (*blocks)[g_nblocks] == NULL))
#define F_NONNULL_block(j) (!((j) < g_nblocks) || ((*blocks)[j] != NULL && (void *)(*blocks)[j] != g_self))   /* handles are new objects */
__CPROVER_ensures(RET == CIF_OK ==> EACH_K(F_NONNULL_block))
__CPROVER_ensures(RET == CIF_OK ==> (g_stopped == OLD(g_stopped) && g_stop_code == OLD(g_stop_code)))
__CPROVER_ensures(RET != CIF_OK ==> (RET > 0 && IS_STOP(RET) && g_stopped == 1 && g_stop_code == RET)   /* library functions return CIF result codes (>= 0), never traversal directives */)
;

void cif_loop_free(cif_loop_tp *loop)
__CPROVER_requires(loop != NULL)
__CPROVER_assigns(g_loops_freed)
__CPROVER_ensures(g_loops_freed == OLD(g_loops_freed) + 1)
;

void cif_container_free(cif_container_tp *container)
__CPROVER_requires(container != NULL)
__CPROVER_assigns(g_containers_freed)
__CPROVER_ensures(g_containers_freed == OLD(g_containers_freed) + 1)
;

int cif_loop_get_packets(cif_loop_tp *loop, cif_pktitr_tp **iterator)
__CPROVER_requires(loop != NULL && __CPROVER_w_ok(iterator, sizeof(*iterator)))
__CPROVER_assigns(*iterator, g_npackets_left, g_itr_opened, G_STOP)
__CPROVER_ensures(RET == CIF_OK ==> (*iterator != NULL && g_npackets_left >= 1 && g_npackets_left <= 1000000))
__CPROVER_ensures(g_itr_opened == OLD(g_itr_opened) + (RET == CIF_OK ? 1 : 0))
__CPROVER_ensures(RET == CIF_OK ==> (g_stopped == OLD(g_stopped) && g_stop_code == OLD(g_stop_code)))
__CPROVER_ensures(RET != CIF_OK ==> (RET > 0 && IS_STOP(RET) && g_stopped == 1 && g_stop_code == RET)   /* library functions return CIF result codes (>= 0), never traversal directives */)
;

/* delivers the packets one by one, then CIF_FINISHED; any other code is an error (a stop) */
int cif_pktitr_next_packet(cif_pktitr_tp *iterator, cif_packet_tp **packet)
__CPROVER_requires(iterator != NULL && __CPROVER_w_ok(packet, sizeof(*packet)) && g_stopped == 0)
__CPROVER_assigns(*packet, g_npackets_left, G_STOP)
__CPROVER_ensures(RET == CIF_OK ==> (OLD(g_npackets_left) > 0 && g_npackets_left == OLD(g_npackets_left) - 1 && *packet != NULL && (void *)*packet != g_self && g_stopped == 0))
__CPROVER_ensures(RET == CIF_FINISHED ==> (OLD(g_npackets_left) == 0 && g_npackets_left == 0 && g_stopped == 0))
__CPROVER_ensures((RET != CIF_OK && RET != CIF_FINISHED) ==> (RET > 0 && IS_STOP(RET) && g_stopped == 1 && g_stop_code == RET)   /* library functions return CIF result codes (>= 0), never traversal directives */)
;

/* closing is assumed to succeed: a failing COMMIT is a resource error outside C14 (listed in the evidence) */
int cif_pktitr_close(cif_pktitr_tp *iterator)
__CPROVER_requires(iterator != NULL)
__CPROVER_assigns(g_itr_closed)
__CPROVER_ensures(g_itr_closed == OLD(g_itr_closed) + 1)
__CPROVER_ensures(RET == CIF_OK)
;

void cif_packet_free(cif_packet_tp *packet)
__CPROVER_assigns(g_packets_freed)
__CPROVER_ensures(g_packets_freed == OLD(g_packets_freed) + 1)
;

#endif
