/* Contracts that mention types private to ciffile.c (write_context_t): included AFTER the real source by the harness;
 * CBMC attaches the clauses of a later redeclaration to the function just the same. */
/* ---- output column accounting (C02 / C13: no line longer than CIF_LINE_LENGTH) ------------------------------------ */
#define CTX(c) ((write_context_t *)(c))
static int write_quoted(void *context, const UChar *text, int32_t length, char delimiter)
__CPROVER_requires(__CPROVER_rw_ok(CTX(context), sizeof(write_context_t)))
__CPROVER_requires(CTX(context)->last_column >= 0 && CTX(context)->last_column <= CIF_LINE_LENGTH)
__CPROVER_requires(length >= 0 && length <= CIF_LINE_LENGTH - 2)
__CPROVER_assigns(CTX(context)->last_column)
__CPROVER_ensures(RET == CIF_OK || RET == CIF_ERROR)
/* on success the delimited value (length + 2 code units) went either after what was on the line or onto a fresh line, and in
 * neither case does the physical line exceed the CIF line length */
__CPROVER_ensures(RET == CIF_OK ==> ((CTX(context)->last_column == OLD(CTX(context)->last_column) + length + 2 || CTX(context)->last_column == length + 2)
        && CTX(context)->last_column <= CIF_LINE_LENGTH))
;
