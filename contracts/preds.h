/*
 * Shared specification vocabulary (DESIGN.md section 4).  Pure macros: no function calls,
 * so they can be used inside contracts and loop invariants.  Written from the CIF 1.1 /
 * CIF 2.0 specifications, not from the code under verification.
 */
#ifndef VERIF_PREDS_H
#define VERIF_PREDS_H
#include "common.h"

#ifndef MAXN
#define MAXN 16          /* maximum modelled object size of a string argument, in code units */
#endif

/* index (in UChar units) of pointer p inside its object */
#define IDX(p) (OFF(p) / sizeof(UChar))

/* s is a NUL-terminated UTF-16 string of exactly len units inside an object of MAXN units */
#define USTR_Q(s, len) ((len) < MAXN && (s)[len] == 0 && FORALL_LT(_j, len, (s)[_j] != 0))

/* code-unit classes */
#define IS_HIGH_SURR(c) ((c) >= 0xD800 && (c) <= 0xDBFF)
#define IS_LOW_SURR(c)  ((c) >= 0xDC00 && (c) <= 0xDFFF)
#define IS_SURR(c)      ((c) >= 0xD800 && (c) <= 0xDFFF)
#define SUPP_CP(h, l)   (0x10000UL + ((((unsigned long)(h)) - 0xD800UL) << 10) + (((unsigned long)(l)) - 0xDC00UL))

/* CIF 2.0 allowed BMP scalar (non-surrogate code unit): everything except C0 controls other than
 * TAB/LF/CR, U+007F, U+FDD0..U+FDEF, U+FFFE, U+FFFF */
#define CIF2_BMP_ALLOWED(c) (!((c) < 0x20 && (c) != 0x9 && (c) != 0xA && (c) != 0xD) && (c) != 0x7F && \
                             !((c) >= 0xFDD0 && (c) <= 0xFDEF) && (c) != 0xFFFE && (c) != 0xFFFF)
/* code unit j of s is part of an allowed, well-formed scalar value (s[j] != 0) */
#define CIF2_UNIT_OK(s, j) ( \
    IS_HIGH_SURR((s)[j]) ? (IS_LOW_SURR((s)[(j) + 1]) && (SUPP_CP((s)[j], (s)[(j) + 1]) & 0xFFFEUL) != 0xFFFEUL) : \
    IS_LOW_SURR((s)[j])  ? ((j) > 0 && IS_HIGH_SURR((s)[(j) > 0 ? (j) - 1 : 0])) : \
    CIF2_BMP_ALLOWED((s)[j]))

/* CIF whitespace as far as names are concerned: anything at or below U+0020 */
#define CIF_WS_UNIT(c) ((c) <= 0x20)

/* ASCII case folding of one code unit */
#define LOWER(c) (((c) >= 0x41 && (c) <= 0x5A) ? (c) + 0x20 : (c))
/* reserved forms of CIF 2.0 for whitespace-delimited values (short-circuit: never reads past a NUL) */
#define RESERVED_START(c) ((c) == '_' || (c) == '#' || (c) == '$' || (c) == '\'' || (c) == '"')
#define SPEC_RESERVED(s) ( RESERVED_START((s)[0]) \
  || (LOWER((s)[0]) == 'd' && LOWER((s)[1]) == 'a' && LOWER((s)[2]) == 't' && LOWER((s)[3]) == 'a' && (s)[4] == '_') \
  || (LOWER((s)[0]) == 's' && LOWER((s)[1]) == 'a' && LOWER((s)[2]) == 'v' && LOWER((s)[3]) == 'e' && (s)[4] == '_') \
  || (LOWER((s)[0]) == 'l' && LOWER((s)[1]) == 'o' && LOWER((s)[2]) == 'o' && LOWER((s)[3]) == 'p' && (s)[4] == '_' && (s)[5] == 0) \
  || (LOWER((s)[0]) == 's' && LOWER((s)[1]) == 't' && LOWER((s)[2]) == 'o' && LOWER((s)[3]) == 'p' && (s)[4] == '_' && (s)[5] == 0) \
  || (LOWER((s)[0]) == 'g' && LOWER((s)[1]) == 'l' && LOWER((s)[2]) == 'o' && LOWER((s)[3]) == 'b' && LOWER((s)[4]) == 'a' \
      && LOWER((s)[5]) == 'l' && (s)[6] == '_' && (s)[7] == 0) )


/* finite conjunction over the slots 0..MAXL-1 of a small array: used instead of a quantifier where the body compares
 * pointers (cbmc 6.11's SAT back end mis-evaluates quantified bodies of pointer type, DESIGN 2) */
#define EACH_2(F)  (F(0) && F(1))
#define EACH_4(F)  (EACH_2(F) && F(2) && F(3))
#define EACH_6(F)  (EACH_4(F) && F(4) && F(5))
#define EACH_8(F)  (EACH_6(F) && F(6) && F(7))
#define EACH_12(F) (EACH_8(F) && F(8) && F(9) && F(10) && F(11))
#define EACH_16(F) (EACH_12(F) && F(12) && F(13) && F(14) && F(15))
#define EACH_CAT2(n) EACH_##n
#define EACH_CAT(n) EACH_CAT2(n)
#define EACH_L(F) EACH_CAT(MAXL)(F)

#endif
