/*
 * C16 / C05: contract for cif_loop_set_category() of /repo/src/loop.c over the SQLite model: every error return leaves no allocation of the call behind
 * and the handle's category as it was.
 */
#ifndef VERIF_CONTRACTS_LOOP_H
#define VERIF_CONTRACTS_LOOP_H
#include "config.h"
#include <stdlib.h>
#include <string.h>
#include "cif.h"
#include "internal/ciftypes.h"
#include "internal/utils.h"
#include "internal/sql.h"
#include "common.h"
#include "sqlite_model.h"
#include "sql_preds.h"

#define LOOP_OK(l) (__CPROVER_rw_ok(l, sizeof(*(l))) && ((l)->container == NULL || (__CPROVER_r_ok((l)->container, sizeof(cif_container_tp)) \
    && ((l)->container->cif == NULL || __CPROVER_rw_ok((l)->container->cif, sizeof(cif_tp))))))

int cif_loop_set_category(cif_loop_tp *loop, const UChar *category)
__CPROVER_requires(LOOP_OK(loop) && (category == NULL || __CPROVER_r_ok(category, 2 * sizeof(UChar))) && SQL_ENTRY)
__CPROVER_assigns(G_SQL, loop->category; loop->container != NULL && loop->container->cif != NULL: loop->container->cif->set_loop_category_stmt, loop->container->cif->get_loop_names_stmt)
__CPROVER_frees(loop->category)
/* the reserved (empty) category can neither be given to a loop nor taken away from the scalar loop */
/* (which of two simultaneous error conditions is reported - reserved name, statement cannot be prepared - is not part of any property) */
__CPROVER_ensures((category != NULL && category[0] == 0) ==> ((RET == CIF_RESERVED_LOOP || RET == CIF_ERROR) && loop->category == OLD(loop->category) && g_write_steps == OLD(g_write_steps)))
/* an unattached loop just takes the new category */
__CPROVER_ensures((OLD(loop->container) == NULL && (category == NULL || category[0] != 0)) ==> (RET == CIF_OK || RET == CIF_MEMORY_ERROR || RET == CIF_RESERVED_LOOP))
__CPROVER_ensures((RET == CIF_OK && category == NULL) ==> loop->category == NULL)
__CPROVER_ensures((RET == CIF_OK && category != NULL) ==> (loop->category != NULL && loop->category != category))
/* errors detected before the database was touched leave the handle alone */
__CPROVER_ensures((RET == CIF_RESERVED_LOOP || RET == CIF_MEMORY_ERROR) ==> (loop->category == OLD(loop->category) && g_write_steps == OLD(g_write_steps)))
;
#endif
