/*
 * Contracts for /repo/src/utils.c (C09, C13, C18, C16, C17).  Each contract is attached to a
 * forward declaration; the harness includes the real utils.c afterwards, so the definition
 * that goto-instrument --dfcc checks is the code that runs.
 */
#ifndef VERIF_CONTRACTS_UTILS_H
#define VERIF_CONTRACTS_UTILS_H
#include "config.h"
#include <unicode/ustring.h>
#include <unicode/uchar.h>
#include <unicode/unorm.h>
#include <unicode/ucnv.h>
#include "cif.h"
#include "internal/utils.h"
#include "preds.h"

/* ghost: length (index of the first NUL) of the string argument under consideration */
size_t g_len;
/* ghost: number of code points of that string as ICU's u_countChar32 reports it (assumed contract) */
int32_t g_cp_count;

/* ---- specifications (shared by the contract and by the native replay oracle) -------------- */
#define SPEC_HAS_WHITESPACE(s, len, r)   (((r) != 0) == EXISTS_LT(_k, len, CIF_WS_UNIT((s)[_k])))
#define SPEC_HAS_DISALLOWED(s, len, r)   (((r) == 0) == FORALL_LT(_k, len, CIF2_UNIT_OK(s, _k)))
#define SPEC_IS_RESERVED(s, r)           (((r) != 0) == (SPEC_RESERVED(s) ? 1 : 0))
/* C09: a code / data name is accepted exactly when it meets CIF's validity rules */
#define SPEC_VALID_NAME(s, len, for_item, cpcount, r) (((r) != 0) == ( \
       ((for_item) == 0 ? (len) >= 1 : ((s)[0] == '_' && (len) >= 2)) \
    && (cpcount) <= ((for_item) == 0 ? 2043 : 2048) \
    && !EXISTS_LT(_k, len, CIF_WS_UNIT((s)[_k])) \
    && FORALL_LT(_k2, len, CIF2_UNIT_OK(s, _k2)) ))

static int cif_has_whitespace(const UChar *src)
__CPROVER_requires(__CPROVER_r_ok(src, MAXN * sizeof(UChar)) && USTR_Q(src, g_len))
__CPROVER_assigns()
__CPROVER_ensures(SPEC_HAS_WHITESPACE(src, g_len, __CPROVER_return_value))
;

static int cif_has_disallowed_chars(const UChar *str)
__CPROVER_requires(__CPROVER_r_ok(str, MAXN * sizeof(UChar)) && USTR_Q(str, g_len))
__CPROVER_assigns()
__CPROVER_ensures(SPEC_HAS_DISALLOWED(str, g_len, __CPROVER_return_value))
;

int cif_is_reserved_string(const UChar *str)
__CPROVER_requires(g_len < MAXN && __CPROVER_r_ok(str, (g_len + 1) * sizeof(UChar)) && str[g_len] == 0)
__CPROVER_requires(FORALL_LT(_j, g_len, str[_j] != 0))
__CPROVER_assigns()
__CPROVER_ensures(SPEC_IS_RESERVED(str, __CPROVER_return_value))
;

/* assumed contract of ICU (trusted): the code point count of the NUL-terminated string */
int32_t u_countChar32(const UChar *s, int32_t length)
__CPROVER_requires(length == -1 && __CPROVER_r_ok(s, MAXN * sizeof(UChar)) && USTR_Q(s, g_len))
__CPROVER_assigns()
__CPROVER_ensures(__CPROVER_return_value == g_cp_count)
;

static int cif_is_valid_name(const UChar *name, int for_item)
__CPROVER_requires(name == NULL || (__CPROVER_r_ok(name, MAXN * sizeof(UChar)) && USTR_Q(name, g_len)))
__CPROVER_requires(g_cp_count >= 0)
__CPROVER_assigns()
__CPROVER_ensures(name == NULL ==> __CPROVER_return_value == 0)
__CPROVER_ensures(name != NULL ==> SPEC_VALID_NAME(name, g_len, for_item, g_cp_count, __CPROVER_return_value))
;

#endif
