/*
 * Contracts for /repo/src/utils.c (C09, C13, C18, C16, C17).  Each contract is attached to a
 * forward declaration; the harness includes the real utils.c afterwards, so the definition
 * that goto-instrument --dfcc checks is the code that runs.
 */
#ifndef VERIF_CONTRACTS_UTILS_H
#define VERIF_CONTRACTS_UTILS_H
#include "config.h"
#include <unicode/ustring.h>
#include <unicode/uchar.h>
#include <unicode/unorm.h>
#include <unicode/ucnv.h>
#include "cif.h"
#include "internal/utils.h"
#include "preds.h"

/* ghost: length (index of the first NUL) of the string argument under consideration */
size_t g_len;
/* ghost: number of code points of that string as ICU's u_countChar32 reports it (assumed contract) */
int32_t g_cp_count;

/* ---- specifications (shared by the contract and by the native replay oracle) -------------- */
#define SPEC_HAS_WHITESPACE(s, len, r)   (((r) != 0) == EXISTS_LT(_k, len, CIF_WS_UNIT((s)[_k])))
#define SPEC_HAS_DISALLOWED(s, len, r)   (((r) == 0) == FORALL_LT(_k, len, CIF2_UNIT_OK(s, _k)))
#define SPEC_IS_RESERVED(s, r)           (((r) != 0) == (SPEC_RESERVED(s) ? 1 : 0))
/* C09: a code / data name is accepted exactly when it meets CIF's validity rules */
#define SPEC_VALID_NAME(s, len, for_item, cpcount, r) (((r) != 0) == ( \
       ((for_item) == 0 ? (len) >= 1 : ((s)[0] == '_' && (len) >= 2)) \
    && (cpcount) <= ((for_item) == 0 ? 2043 : 2048) \
    && !EXISTS_LT(_k, len, CIF_WS_UNIT((s)[_k])) \
    && FORALL_LT(_k2, len, CIF2_UNIT_OK(s, _k2)) ))

static int cif_has_whitespace(const UChar *src)
__CPROVER_requires(__CPROVER_r_ok(src, MAXN * sizeof(UChar)) && USTR_Q(src, g_len))
__CPROVER_assigns()
__CPROVER_ensures(SPEC_HAS_WHITESPACE(src, g_len, __CPROVER_return_value))
;

static int cif_has_disallowed_chars(const UChar *str)
__CPROVER_requires(__CPROVER_r_ok(str, MAXN * sizeof(UChar)) && USTR_Q(str, g_len))
__CPROVER_assigns()
__CPROVER_ensures(SPEC_HAS_DISALLOWED(str, g_len, __CPROVER_return_value))
;

int cif_is_reserved_string(const UChar *str)
__CPROVER_requires(g_len < MAXN && __CPROVER_r_ok(str, (g_len + 1) * sizeof(UChar)) && str[g_len] == 0)
__CPROVER_requires(FORALL_LT(_j, g_len, str[_j] != 0))
__CPROVER_assigns()
__CPROVER_ensures(SPEC_IS_RESERVED(str, __CPROVER_return_value))
;

/* assumed contract of ICU (trusted): the code point count of the NUL-terminated string */
int32_t u_countChar32(const UChar *s, int32_t length)
__CPROVER_requires(length == -1 && __CPROVER_r_ok(s, MAXN * sizeof(UChar)) && USTR_Q(s, g_len))
__CPROVER_assigns()
__CPROVER_ensures(__CPROVER_return_value == g_cp_count)
;

static int cif_is_valid_name(const UChar *name, int for_item)
__CPROVER_requires(name == NULL || (__CPROVER_r_ok(name, MAXN * sizeof(UChar)) && USTR_Q(name, g_len)))
__CPROVER_requires(g_cp_count >= 0)
__CPROVER_assigns()
__CPROVER_ensures(name == NULL ==> __CPROVER_return_value == 0)
__CPROVER_ensures(name != NULL ==> SPEC_VALID_NAME(name, g_len, for_item, g_cp_count, __CPROVER_return_value))
;


/* ---- normalisation buffers (C09 / C16 / C17) -------------------------------------------------------------------- */
#define OLD(x) __CPROVER_old(x)
#define RET __CPROVER_return_value
int32_t g_norm_len;      /* ghost: length of the normalised form as ICU computes it (arbitrary) */
int g_norm_fail;         /* ghost: ICU reports a failure other than overflow */

int32_t u_strlen(const UChar *s)
__CPROVER_requires(__CPROVER_r_ok(s, MAXN * sizeof(UChar)) && USTR_Q(s, g_len))
__CPROVER_assigns()
__CPROVER_ensures(RET == (int32_t)g_len)
;

/* assumed ICU contract (preflighting protocol of every ICU string function): returns the full result length; writes at most
 * destCapacity units; status = BUFFER_OVERFLOW if it does not fit, STRING_NOT_TERMINATED if only the NUL does not fit */
int32_t unorm_normalize(const UChar *source, int32_t sourceLength, UNormalizationMode mode, int32_t options, UChar *result, int32_t resultLength, UErrorCode *status)
__CPROVER_requires(sourceLength >= 0 && resultLength >= 0 && __CPROVER_rw_ok(status, sizeof(*status)) && *status == U_ZERO_ERROR)
__CPROVER_requires(resultLength == 0 || __CPROVER_w_ok(result, (size_t)resultLength * sizeof(UChar)))
__CPROVER_requires(g_norm_len >= 0 && g_norm_len < MAXN - 1)
__CPROVER_assigns(*status, __CPROVER_object_upto(result, (size_t)resultLength * sizeof(UChar)))
__CPROVER_ensures(g_norm_fail ? (*status > U_ZERO_ERROR && *status != U_BUFFER_OVERFLOW_ERROR) :
        (RET == g_norm_len && *status == (g_norm_len > resultLength ? U_BUFFER_OVERFLOW_ERROR : (g_norm_len == resultLength ? U_STRING_NOT_TERMINATED_WARNING : U_ZERO_ERROR))))
__CPROVER_ensures((!g_norm_fail && g_norm_len < resultLength) ==> result[g_norm_len] == 0)
;

/* pipeline monitor (only active in the cif_normalize job, g_pipe_on): order and modes of the normalisation steps */
int g_pipe_on; unsigned g_pipe_n, g_fold_calls, g_fold_at; int g_pipe_first_mode, g_pipe_last_mode, g_pipe_last_terminate;
#define PIPE_NORM_POST(mode, terminate) (!g_pipe_on || (g_pipe_n == OLD(g_pipe_n) + 1 && g_pipe_last_mode == (int)(mode) && g_pipe_last_terminate == (terminate) \
        && g_pipe_first_mode == (OLD(g_pipe_n) == 0 ? (int)(mode) : OLD(g_pipe_first_mode))))

static int cif_unicode_normalize(const UChar *src, int32_t srclen, UNormalizationMode mode, UChar **result, int32_t *result_length, int terminate)
__CPROVER_requires(srclen < 0 ? (__CPROVER_r_ok(src, MAXN * sizeof(UChar)) && USTR_Q(src, g_len)) : (srclen < MAXN && (srclen == 0 || __CPROVER_r_ok(src, (size_t)srclen * sizeof(UChar)))))
__CPROVER_requires(__CPROVER_rw_ok(result, sizeof(*result)) && __CPROVER_rw_ok(result_length, sizeof(*result_length)))
__CPROVER_requires(g_norm_len >= 0 && g_norm_len < MAXN - 1)
__CPROVER_assigns(*result, *result_length, g_pipe_n, g_pipe_first_mode, g_pipe_last_mode, g_pipe_last_terminate)
__CPROVER_ensures(PIPE_NORM_POST(mode, terminate))
__CPROVER_ensures(RET == CIF_OK || RET == CIF_MEMORY_ERROR || RET == CIF_ERROR)
/* success: a buffer holding the g_norm_len normalised units, NUL-terminated when asked for, handed to the caller */
__CPROVER_ensures(RET == CIF_OK ==> (*result_length == g_norm_len && __CPROVER_rw_ok(*result, ((size_t)g_norm_len + (terminate ? 1 : 0)) * sizeof(UChar))))
__CPROVER_ensures((RET == CIF_OK && terminate) ==> (*result)[g_norm_len] == 0)
/* failure: outputs untouched (and, checked by --memory-leak-check in the harness, nothing left allocated) */
__CPROVER_ensures(RET != CIF_OK ==> (*result == OLD(*result) && *result_length == OLD(*result_length)))
;

static int cif_fold_case(const UChar *src, int32_t srclen, UChar **result, int32_t *result_length)
__CPROVER_requires(srclen >= 0 && srclen < MAXN && (srclen == 0 || __CPROVER_r_ok(src, (size_t)srclen * sizeof(UChar))))
__CPROVER_requires(__CPROVER_rw_ok(result, sizeof(*result)) && __CPROVER_rw_ok(result_length, sizeof(*result_length)))
__CPROVER_assigns(*result, *result_length, g_fold_calls, g_fold_at)
__CPROVER_ensures(g_fold_calls == OLD(g_fold_calls) + 1 && g_fold_at == g_pipe_n)
__CPROVER_ensures(RET == CIF_OK || RET == CIF_MEMORY_ERROR || RET == CIF_ERROR)
__CPROVER_ensures(RET == CIF_OK ==> (*result_length >= 0 && *result_length < MAXN - 1 && __CPROVER_is_fresh(*result, ((size_t)*result_length + 1) * sizeof(UChar))))
__CPROVER_ensures(RET != CIF_OK ==> (*result == OLD(*result) && *result_length == OLD(*result_length)))
;

/* C09: the normalised form of a code / data name is NFC(casefold(NFD(name))) - in that order - NUL-terminated, in fresh storage */
int cif_normalize(const UChar *src, int32_t srclen, UChar **normalized)
__CPROVER_requires(__CPROVER_r_ok(src, MAXN * sizeof(UChar)) && USTR_Q(src, g_len) && (srclen < 0 || (size_t)srclen <= g_len))
__CPROVER_requires(normalized == NULL || __CPROVER_rw_ok(normalized, sizeof(*normalized)))
__CPROVER_requires(g_pipe_on && g_pipe_n == 0 && g_fold_calls == 0)
__CPROVER_assigns(g_pipe_n, g_pipe_first_mode, g_pipe_last_mode, g_pipe_last_terminate, g_fold_calls, g_fold_at; normalized != NULL: *normalized)
__CPROVER_ensures(RET == CIF_OK || RET == CIF_MEMORY_ERROR || RET == CIF_ERROR)
__CPROVER_ensures(RET == CIF_OK ==> (g_pipe_n == 2 && g_pipe_first_mode == (int)UNORM_NFD && g_fold_calls == 1 && g_fold_at == 1
        && g_pipe_last_mode == (int)UNORM_NFC && g_pipe_last_terminate != 0))
__CPROVER_ensures((RET == CIF_OK && normalized != NULL) ==> (*normalized != NULL && (*normalized)[g_norm_len] == 0))
__CPROVER_ensures((RET != CIF_OK && normalized != NULL) ==> *normalized == OLD(*normalized))
;

/* ---- cif_analyze_string (C18) ------------------------------------------------------------------------------------------------ */
/* Ghost prefix statistics of the string under analysis, computed by the harness with a plain reference loop (the executable form
 * of "number of lines", "length of the first / last / longest line", ...).  Index j = after j code units.  The loop invariant of the
 * real counting loop states that every counter equals its ghost at the current position. */
#define NSTAT (MAXN + 1)
int32_t gs_lines[NSTAT];     /* terminators completed (LF, or CR not followed by LF) */
int32_t gs_cur[NSTAT];       /* units in the current (unterminated) line */
int32_t gs_first[NSTAT];     /* length of the first line once it is terminated, else 0 */
int32_t gs_max[NSTAT];       /* longest terminated line so far */
int32_t gs_semi[NSTAT];      /* current run of semicolons */
int32_t gs_most[NSTAT];      /* longest completed run of semicolons */
int32_t gs_crlf[NSTAT];      /* CRs that are directly followed by LF */
int gs_nlsemi[NSTAT];        /* a terminator directly followed by a semicolon has been seen */
int32_t gs_cnt[10][NSTAT];   /* occurrences of SP TAB [ ] { } apostrophe quote LF CR */
int gs_has_apos3, gs_has_quot3;   /* the string contains three apostrophes / three quotes in a row */

/* assumed ICU contracts */
UChar *u_strstr(const UChar *s, const UChar *substring)
__CPROVER_requires(__CPROVER_r_ok(s, MAXN * sizeof(UChar)) && USTR_Q(s, g_len) && __CPROVER_r_ok(substring, 4 * sizeof(UChar)))
__CPROVER_assigns()
__CPROVER_ensures((RET == NULL) == !(substring[0] == 0x27 ? gs_has_apos3 : gs_has_quot3))
;

/* what may be presented whitespace-delimited in CIF 2.0 (the predicate the scanner side uses as well) */
#define BARE_OK(s, len) ((len) > 0 && gs_cnt[0][len] + gs_cnt[1][len] + gs_cnt[2][len] + gs_cnt[3][len] + gs_cnt[4][len] + gs_cnt[5][len] == 0 \
    && (s)[0] != 0x27 && (s)[0] != 0x22 && (s)[0] != '#' && (s)[0] != '$' && (s)[0] != '_' && (s)[0] != ';' \
    && !((len) == 1 && ((s)[0] == '?' || (s)[0] == '.')) && !SPEC_RESERVED(s))

int cif_analyze_string(const UChar *str, int allow_unquoted, int allow_triple_quoted, int32_t length_limit, struct cif_string_analysis_s *result)
__CPROVER_requires(__CPROVER_r_ok(str, MAXN * sizeof(UChar)) && USTR_Q(str, g_len) && __CPROVER_rw_ok(result, sizeof(*result)) && length_limit >= 8 && length_limit <= 4096)
__CPROVER_assigns(__CPROVER_object_whole(result))
__CPROVER_ensures(RET == CIF_OK)
/* the statistics are exact */
__CPROVER_ensures(result->length == (int32_t)g_len && result->num_lines == 1 + gs_lines[g_len])
__CPROVER_ensures(result->length_last == gs_cur[g_len])
__CPROVER_ensures(result->length_first == (gs_lines[g_len] == 0 ? gs_cur[g_len] : gs_first[g_len]))
__CPROVER_ensures(result->length_max == (gs_lines[g_len] == 0 ? gs_cur[g_len] : (gs_cur[g_len] > gs_max[g_len] ? gs_cur[g_len] : gs_max[g_len])))
__CPROVER_ensures(result->max_semi_run == (gs_semi[g_len] > gs_most[g_len] ? gs_semi[g_len] : gs_most[g_len]))
__CPROVER_ensures((result->contains_text_delim != 0) == (gs_nlsemi[g_len] != 0))
/* the recommended delimiter is permitted by the arguments and safe for this string */
__CPROVER_ensures(result->delim_length >= 0 && result->delim_length <= 3)
__CPROVER_ensures(result->delim_length == 0 ==> (allow_unquoted && gs_lines[g_len] == 0 && BARE_OK(str, g_len)))
__CPROVER_ensures(result->delim_length == 1 ==> (gs_lines[g_len] == 0 && (int32_t)g_len <= length_limit - 2
        && ((result->delim[0] == 0x27 && gs_cnt[6][g_len] == 0) || (result->delim[0] == 0x22 && gs_cnt[7][g_len] == 0)) && result->delim[1] == 0))
__CPROVER_ensures(result->delim_length == 3 ==> (allow_triple_quoted && g_len > 0
        && ((result->delim[0] == 0x27 && !gs_has_apos3 && str[g_len > 0 ? g_len - 1 : 0] != 0x27) || (result->delim[0] == 0x22 && !gs_has_quot3 && str[g_len > 0 ? g_len - 1 : 0] != 0x22))
        && result->delim[1] == result->delim[0] && result->delim[2] == result->delim[0] && result->delim[3] == 0))
__CPROVER_ensures(result->delim_length == 2 ==> (result->delim[0] == 0x0A && result->delim[1] == ';' && result->delim[2] == 0))
/* a single line that admits a bare or singly quoted form with room to spare gets one */
__CPROVER_ensures((gs_lines[g_len] == 0 && (int32_t)g_len <= length_limit - 2 && (gs_cnt[6][g_len] == 0 || gs_cnt[7][g_len] == 0)) ==> result->delim_length <= 1)
;
#endif
