/*
 * C11 stage 2 (and C03 for the option strings): contract of cif_parse_internal() (parser.c) up to the hand-over to parse_cif.
 */
#ifndef VERIF_CONTRACTS_PARSER_INIT_H
#define VERIF_CONTRACTS_PARSER_INIT_H
#include "config.h"
#include <unicode/ustring.h>
#include "cif.h"
#include "internal/utils.h"
#include "common.h"
#define OLD(x) __CPROVER_old(x)
#define RET __CPROVER_return_value

/* ghost inputs: the first two code units of the decoded text, what the scanner finds as first token, and how it compares */
UChar g_c0, g_c1; int g_first_rc, g_more_rc;
size_t g_tok_len; int g_scan_rc;
int g_is_magic2;            /* the 10-unit token equals "#\#CIF_2.0" */
int g_is_magic_prefix;      /* its first 7 units equal "#\#CIF_"     */
/* ghost outputs */
unsigned g_pc_calls; int g_pc_version, g_pc_v1_table; unsigned g_pc_wrongenc_seen, g_pc_disallowed_seen;
unsigned g_err_wrongenc, g_err_disallowed, g_err_other; int g_err_answer;
struct scanner_s *g_scanner;

static int get_first_char(struct scanner_s *scanner)
__CPROVER_requires(scanner == g_scanner && scanner->buffer_limit == 0 && scanner->buffer_size >= 2 && __CPROVER_rw_ok(scanner->buffer, 4 * sizeof(UChar)))
__CPROVER_assigns(scanner->buffer_limit, scanner->at_eof, scanner->tvalue_start, scanner->buffer[0], scanner->buffer[1])
__CPROVER_ensures(RET == g_first_rc && (RET == CIF_OK ==> (scanner->buffer[0] == g_c0 && (scanner->buffer_limit == 1 || (scanner->buffer_limit == 2 && scanner->buffer[1] == g_c1)))))
__CPROVER_ensures(RET != CIF_OK ==> scanner->buffer_limit == 0)
;
static int get_more_chars(struct scanner_s *scanner)
__CPROVER_requires(scanner == g_scanner && scanner->buffer_limit == 1 && scanner->next_char == scanner->buffer + 1)
__CPROVER_assigns(scanner->buffer_limit, scanner->at_eof, scanner->buffer[1])
__CPROVER_ensures(RET == g_more_rc && (RET == CIF_OK ==> (scanner->buffer_limit == 2 && scanner->buffer[1] == g_c1)) && (RET != CIF_OK ==> scanner->buffer_limit == 1))
;
static int scan_to_ws(struct scanner_s *scanner)
__CPROVER_requires(scanner == g_scanner)
__CPROVER_assigns(scanner->next_char, scanner->tvalue_length, scanner->column, scanner->buffer_limit, scanner->at_eof)
__CPROVER_ensures(RET == g_scan_rc && scanner->tvalue_length == g_tok_len)
__CPROVER_ensures(__CPROVER_pointer_in_range_dfcc(scanner->buffer, scanner->next_char, scanner->buffer + 64))
;
/* ICU: compares the first n units (assumed); the harness tells through ghosts what the token is */
int32_t u_strncmp(const UChar *s1, const UChar *s2, int32_t n)
__CPROVER_requires(n == 10 || n == 7)
__CPROVER_assigns()
__CPROVER_ensures((RET == 0) == (n == 10 ? (g_is_magic2 != 0) : (g_is_magic_prefix != 0)))
;
static int parse_cif(struct scanner_s *scanner, cif_tp *cifp)
__CPROVER_requires(scanner == g_scanner)
__CPROVER_assigns(g_pc_calls, g_pc_version, g_pc_v1_table, g_pc_wrongenc_seen, g_pc_disallowed_seen)
__CPROVER_ensures(g_pc_calls == OLD(g_pc_calls) + 1 && g_pc_version == scanner->cif_version && g_pc_v1_table == (scanner->char_class[0x7B] == GENERAL_CLASS ? 1 : 0)
        && g_pc_wrongenc_seen == g_err_wrongenc && g_pc_disallowed_seen == g_err_disallowed)
;

#define SIG_CHAR (g_c0 == 0xFEFF ? g_c1 : g_c0)          /* first character after an initial byte-order mark */
#define HAS_TOKEN10 (SIG_CHAR == 0x23 && g_tok_len == 10)
#define SPEC_FINAL_VERSION(v0) ((v0) > 0 ? (v0) : (HAS_TOKEN10 && g_is_magic2) ? 2 : (HAS_TOKEN10 && g_is_magic_prefix) ? 1 : ((v0) < 0 ? -(v0) : 1))

int cif_parse_internal(struct scanner_s *scanner, int not_utf8, const char *extra_ws, const char *extra_eol, cif_tp *dest)
__CPROVER_requires(scanner == g_scanner && __CPROVER_rw_ok(scanner, sizeof(*scanner)) && scanner->error_callback != NULL)
__CPROVER_requires(scanner->cif_version == 2 || scanner->cif_version == 1 || scanner->cif_version == 0 || scanner->cif_version == -2)
__CPROVER_requires(extra_ws == NULL || __CPROVER_r_ok(extra_ws, 3)) __CPROVER_requires(extra_eol == NULL || __CPROVER_r_ok(extra_eol, 3))
__CPROVER_requires(g_pc_calls == 0 && g_err_wrongenc == 0 && g_err_disallowed == 0 && g_is_magic_prefix >= g_is_magic2)
__CPROVER_assigns(__CPROVER_object_whole(scanner), g_pc_calls, g_pc_version, g_pc_v1_table, g_pc_wrongenc_seen, g_pc_disallowed_seen, g_err_wrongenc, g_err_disallowed, g_err_other, g_err_answer)
/* the document is handed to the grammar at most once, under exactly the version the version comment and the caller's preference denote */
__CPROVER_ensures(g_pc_calls <= 1)
__CPROVER_ensures(g_pc_calls == 1 ==> (g_pc_version == SPEC_FINAL_VERSION(OLD(scanner->cif_version)) && (g_pc_v1_table != 0) == (g_pc_version == 1)))
/* CIF 2.0 content arriving through a non-UTF-8 decoder is reported as CIF_WRONG_ENCODING before anything is parsed, whatever the sign of the flag */
__CPROVER_ensures((g_pc_calls == 1 && g_pc_version == 2 && not_utf8 != 0) ==> g_pc_wrongenc_seen == 1)
__CPROVER_ensures((g_pc_calls == 1 && !(g_pc_version == 2 && not_utf8 != 0)) ==> g_pc_wrongenc_seen == 0)
/* a byte-order mark is accepted as the very first character; under CIF 1.1 rules it is reported as a disallowed character */
__CPROVER_ensures((g_pc_calls == 1 && g_pc_version == 1) ==> g_pc_disallowed_seen == (g_c0 == 0xFEFF ? 1u : 0u))
__CPROVER_ensures((g_pc_calls == 1 && g_pc_version == 2) ==> g_pc_disallowed_seen == 0)
;
#endif
