/* Predicates over the ghost SQLite transaction model shared by the C05 / C06 contracts. */
#ifndef VERIF_SQL_PREDS_H
#define VERIF_SQL_PREDS_H
#define OLD(x) __CPROVER_old(x)
#define RET __CPROVER_return_value
/* C05 in terms of the model: a failed call has undone every write it stepped and nothing else - the enclosing transaction (if any) is still open with exactly
 * the writes it had, nothing became durable, the savepoints that were open are still there with their marks (a call may leave a no-op savepoint of its own on
 * top after ROLLBACK TO; it vanishes with the enclosing transaction).  Void only if SQLite itself refused a ROLLBACK / ROLLBACK TO (I/O failure). */
#define SQL_UNCHANGED_BY_FAILED_CALL (g_undo_failed || (g_durable_writes == OLD(g_durable_writes) && g_tx_open == OLD(g_tx_open) && g_tx_writes == OLD(g_tx_writes) \
    && g_lost_writes - OLD(g_lost_writes) == g_write_steps - OLD(g_write_steps) && g_sp_depth >= OLD(g_sp_depth) \
    && (OLD(g_sp_depth) < 1 || g_sp_mark[0] == OLD(g_sp_mark[0])) && (OLD(g_sp_depth) < 2 || g_sp_mark[1] == OLD(g_sp_mark[1]))))
/* a successful call inside a transaction leaves the bracket structure as it found it and loses nothing */
#define SQL_NESTED_SUCCESS (g_tx_open == OLD(g_tx_open) && g_sp_depth == OLD(g_sp_depth) && g_lost_writes == OLD(g_lost_writes) && g_durable_writes == OLD(g_durable_writes) \
    && g_tx_writes - OLD(g_tx_writes) == g_write_steps - OLD(g_write_steps))
#define SQL_ENTRY (SQL_WF && g_sp_depth <= 2 && !g_undo_failed && g_tx_writes < 1000 && g_write_steps < 1000 && g_lost_writes < 1000 && g_durable_writes < 1000)
#endif
