/*
 * C02 / C13: contracts for the text-formatting half of /repo/src/ciffile.c.
 */
#ifndef VERIF_CONTRACTS_CIFFILE_WRITE_H
#define VERIF_CONTRACTS_CIFFILE_WRITE_H
#include "config.h"
#include <stdio.h>
#include <unicode/ustring.h>
#include <unicode/ustdio.h>
#include "cif.h"
#include "internal/utils.h"
#include "preds.h"
#define OLD(x) __CPROVER_old(x)
#define RET __CPROVER_return_value

size_t g_len;   /* ghost: length of the string argument */
const UChar *g_str; /* ghost: the string argument itself (for loops that advance their pointer parameter) */


/* position p (0 < p < length) is an admissible place to start a continuation line: it does not split a surrogate pair and,
 * unless a prefix is written in front of every line, the continuation does not start with ';' (which would end the field) */
#define PAIR_AT(s, p)        (IS_HIGH_SURR((s)[(p) - 1]) && IS_LOW_SURR((s)[p]))
#define ADMISSIBLE(s, p, fp) (((fp) || (s)[p] != ';') && !PAIR_AT(s, p))

/* assumed ICU contract: length = index of the first NUL */
int32_t u_strlen(const UChar *s)
__CPROVER_requires(__CPROVER_r_ok(s, MAXN * sizeof(UChar)) && USTR_Q(s, g_len))
__CPROVER_assigns()
__CPROVER_ensures(RET == (int32_t)g_len)
;

static int fold_line(const UChar *line, int do_fold, int target_length, int window, int for_prefix)
__CPROVER_requires(__CPROVER_r_ok(line, MAXN * sizeof(UChar)) && USTR_Q(line, g_len))
__CPROVER_requires(target_length >= 2 && target_length < MAXN && window >= 1 && window < target_length && target_length + window + 2 < MAXN)
__CPROVER_assigns()
__CPROVER_ensures(!do_fold ==> RET == (int)g_len)
__CPROVER_ensures(RET >= 0 && RET <= (int)g_len)
/* a proper fold point never splits a surrogate pair and never puts ';' in column 1 of an unprefixed text field */
__CPROVER_ensures((do_fold && RET > 0 && RET < (int)g_len) ==> ADMISSIBLE(line, RET, for_prefix))
/* a string that fits is not folded */
__CPROVER_ensures((do_fold && (int)g_len <= target_length + window) ==> RET == (int)g_len)
/* the segment is no longer than target+window unless no admissible point exists up to there */
__CPROVER_ensures((do_fold && RET > target_length + window) ==> FORALL_LT(_p, MAXN, IMPLIES(_p >= 1 && _p <= (size_t)(target_length + window), !ADMISSIBLE(line, _p, for_prefix))))
/* 0 ("cannot fold") only when no admissible point exists at all */
__CPROVER_ensures((do_fold && RET == 0 && g_len > 0) ==> ((int)g_len > target_length + window && FORALL_LT(_p2, g_len, IMPLIES(_p2 >= 1, !ADMISSIBLE(line, _p2, for_prefix)))))
;

/* ---- CIF 1.1 character set (C13) ------------------------------------------------------------------------------ */
#define CIF11_UNIT_OK(c) ((c) == 0x9 || (c) == 0xA || (c) == 0xD || ((c) >= 0x20 && (c) <= 0x7E))
int cif_validate_cif11_characters(UChar *s, UChar **disallowed)
__CPROVER_requires(__CPROVER_r_ok(s, MAXN * sizeof(UChar)) && USTR_Q(s, g_len))
__CPROVER_requires(disallowed == NULL || __CPROVER_w_ok(disallowed, sizeof(*disallowed)))
__CPROVER_assigns(disallowed != NULL: *disallowed)
__CPROVER_ensures(RET == CIF_OK || RET == CIF_DISALLOWED_CHAR)
__CPROVER_ensures((RET == CIF_OK) == FORALL_LT(_c, g_len, CIF11_UNIT_OK(s[_c])))
/* an offender is reported (that it is the first one is asserted by the harness, which knows the index) */
__CPROVER_ensures((RET != CIF_OK && disallowed != NULL) ==> (__CPROVER_same_object(*disallowed, s) && IDX(*disallowed) < g_len))
__CPROVER_ensures((RET == CIF_OK && disallowed != NULL) ==> *disallowed == NULL)
;

#endif
