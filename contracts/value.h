/*
 * Contracts for /repo/src/value.c: serialisation buffers, list operations, value life cycle,
 * number parsing (C07, C10, C16, C17, C19).
 */
#ifndef VERIF_CONTRACTS_VALUE_H
#define VERIF_CONTRACTS_VALUE_H
#include "config.h"
#include <unicode/ustring.h>
#include "cif.h"
#include "internal/utils.h"
#include "internal/value.h"
#include "internal/buffer.h"
#include "preds.h"

#ifndef MAXB
#define MAXB 32          /* modelled maximum size of a serialisation buffer object, bytes */
#endif
#ifndef MAXL
#define MAXL 6           /* modelled maximum capacity of a list's element array */
#endif

#define OLD(x) __CPROVER_old(x)
#define RET __CPROVER_return_value

/* ---- serialisation buffers ------------------------------------------------------------------ */
#define WBUF_WF(b) ((b)->capacity <= MAXB && (b)->position <= (b)->limit && (b)->limit <= (b)->capacity \
        && ((b)->capacity == 0 || __CPROVER_rw_ok((b)->start, (b)->capacity)))

/* ghost copy of the buffer content before the call, and of the source (set by the harness) */
char g_buf_before[MAXB]; char g_src[MAXB];

static int cif_buf_write(write_buffer_tp *buf, const void *src, size_t len)
__CPROVER_requires(__CPROVER_rw_ok(buf, sizeof(*buf)) && WBUF_WF(buf) && buf->capacity >= 1)
__CPROVER_requires(len <= MAXB && (len == 0 || __CPROVER_r_ok(src, len)))
__CPROVER_assigns(buf->start, buf->position, buf->limit, buf->capacity, __CPROVER_object_whole(buf->start))
__CPROVER_frees(buf->start)
/* success: the bytes are appended at the old position, everything before it is preserved */
__CPROVER_ensures(RET == CIF_OK ==> (buf->position == OLD(buf->position) + len && buf->limit == (OLD(buf->limit) > buf->position ? OLD(buf->limit) : buf->position)
        && buf->capacity >= buf->limit && __CPROVER_rw_ok(buf->start, buf->capacity)))
__CPROVER_ensures(RET == CIF_OK ==> __CPROVER_forall { size_t j; (j < MAXB) ==> ((j < len) ==> buf->start[OLD(buf->position) + j] == g_src[j]) })
__CPROVER_ensures(RET == CIF_OK ==> __CPROVER_forall { size_t j3; (j3 < MAXB) ==> ((j3 < OLD(buf->position)) ==> buf->start[j3] == g_buf_before[j3]) })
/* failure: only the documented codes, and the buffer is unchanged and still valid */
__CPROVER_ensures(RET == CIF_OK || RET == CIF_MEMORY_ERROR || RET == CIF_ERROR)
__CPROVER_ensures(RET != CIF_OK ==> (buf->position == OLD(buf->position) && buf->limit == OLD(buf->limit) && buf->capacity == OLD(buf->capacity)
        && buf->start == OLD(buf->start)))
;

static size_t cif_buf_read(read_buffer_tp *buf, void *dest, size_t max)
__CPROVER_requires(__CPROVER_rw_ok(buf, sizeof(*buf)) && buf->limit <= MAXB && (buf->limit == 0 || __CPROVER_r_ok(buf->start, buf->limit)))
__CPROVER_requires(max <= MAXB && (max == 0 || __CPROVER_w_ok(dest, max)))
__CPROVER_assigns(buf->position, __CPROVER_object_upto(dest, max))
__CPROVER_ensures(RET == ((OLD(buf->position) >= buf->limit) ? 0 : ((buf->limit - OLD(buf->position) < max) ? buf->limit - OLD(buf->position) : max)))
__CPROVER_ensures(buf->position == OLD(buf->position) + RET)
__CPROVER_ensures(__CPROVER_forall { size_t j; (j < MAXB) ==> ((j < RET) ==> ((char *)dest)[j] == buf->start[OLD(buf->position) + j]) })
;

/* ---- values: abstract callee contracts used by the list operations -------------------------------- */
cif_value_tp *g_last_clone;      /* object produced by the latest successful clone/create */
cif_value_tp *g_last_freed;      /* argument of the latest cif_value_free */
unsigned g_free_calls, g_clean_calls, g_clone_calls;
cif_value_tp *g_last_cleaned;
cif_value_tp *g_clone_src;

int cif_value_clone(cif_value_tp *value, cif_value_tp **clone)
__CPROVER_requires(value != NULL && __CPROVER_rw_ok(clone, sizeof(*clone)))
__CPROVER_assigns(*clone, g_last_clone, g_clone_calls, g_clone_src, g_last_cleaned, g_clean_calls)
__CPROVER_ensures(RET == CIF_OK || RET == CIF_MEMORY_ERROR || RET == CIF_ERROR || RET == CIF_ARGUMENT_ERROR)
__CPROVER_ensures(g_clone_calls == OLD(g_clone_calls) + 1 && g_clone_src == value)
/* a NULL target yields a fresh object; a non-NULL target is cleaned and overwritten in place */
__CPROVER_ensures((RET == CIF_OK && OLD(*clone) == NULL) ==> (__CPROVER_is_fresh(*clone, sizeof(cif_value_tp)) && g_last_clone == *clone))
__CPROVER_ensures((RET == CIF_OK && OLD(*clone) != NULL) ==> (*clone == OLD(*clone) && g_last_clone == *clone))
__CPROVER_ensures(RET != CIF_OK ==> (*clone == OLD(*clone) && g_last_clone == OLD(g_last_clone)))   /* the ghost tracks the last SUCCESSFUL copy */
__CPROVER_ensures(OLD(*clone) != NULL ==> (g_last_cleaned == OLD(*clone) && g_clean_calls == OLD(g_clean_calls) + 1))
__CPROVER_ensures(OLD(*clone) == NULL ==> (g_last_cleaned == OLD(g_last_cleaned) && g_clean_calls == OLD(g_clean_calls)))
;

int cif_value_create(cif_kind_tp kind, cif_value_tp **value)
__CPROVER_requires(__CPROVER_rw_ok(value, sizeof(*value)))
__CPROVER_assigns(*value, g_last_clone)
__CPROVER_ensures(RET == CIF_OK || RET == CIF_MEMORY_ERROR || RET == CIF_ERROR || RET == CIF_ARGUMENT_ERROR)
__CPROVER_ensures(RET == CIF_OK ==> (__CPROVER_is_fresh(*value, sizeof(cif_value_tp)) && g_last_clone == *value && (*value)->kind == kind))
__CPROVER_ensures(RET != CIF_OK ==> (*value == OLD(*value) && g_last_clone == OLD(g_last_clone)))
;

void cif_value_free(union cif_value_u *value)
__CPROVER_assigns(g_last_freed, g_free_calls)
__CPROVER_ensures(g_last_freed == value && g_free_calls == OLD(g_free_calls) + 1)
;

void cif_value_clean(union cif_value_u *value)
__CPROVER_requires(__CPROVER_rw_ok(value, sizeof(*value)))
__CPROVER_assigns(value->kind, g_last_cleaned, g_clean_calls)
__CPROVER_ensures(value->kind == CIF_UNK_KIND && g_last_cleaned == value && g_clean_calls == OLD(g_clean_calls) + 1)
;


#ifdef VERIF_SCALAR_ONLY
/* Round-trip jobs for scalar values: the composite branches of SERIALIZE / DESERIALIZE must be unreachable there. Replacing these four
 * by a contract whose precondition is false turns "unreachable" into an obligation at each call site (it is not an assumption). */
static int cif_list_serialize(struct list_value_s *list, write_buffer_tp *buf) __CPROVER_requires(0) __CPROVER_assigns() ;
static int cif_table_serialize(struct table_value_s *table, write_buffer_tp *buf) __CPROVER_requires(0) __CPROVER_assigns() ;
static int cif_list_deserialize(struct list_value_s *list, read_buffer_tp *buf) __CPROVER_requires(0) __CPROVER_assigns() ;
static int cif_table_deserialize(struct table_value_s *table, read_buffer_tp *buf) __CPROVER_requires(0) __CPROVER_assigns() ;
#endif

/* ---- lists as sequences (C19) ------------------------------------------------------------------------ */
/* ghost copy of the element array before the call (set by the harness) */
cif_value_tp *g_el_before[MAXL + 1];
/* ghost: the element array of the list at entry (set by the harness) */
cif_value_tp **g_els;

#define LIST_WF(v) ((v)->as_list.size <= (v)->as_list.capacity && (v)->as_list.capacity <= MAXL \
        && ((v)->as_list.capacity == 0 ? 1 : __CPROVER_rw_ok((v)->as_list.elements, (v)->as_list.capacity * sizeof(cif_value_tp *))))
/* slot predicates (j is a constant slot number, see EACH_L) */
#define SLOT_SAME(v, j)        (!((j) < (v)->as_list.size) || (v)->as_list.elements[j] == g_el_before[j])
#define SLOT_SAME_BELOW(v, j, i)  (!((j) < (i)) || (v)->as_list.elements[j] == g_el_before[j])
#define SLOT_SHIFTED_UP(v, j, i)  (!((j) > (i) && (j) < (v)->as_list.size) || (v)->as_list.elements[j] == g_el_before[(j) > 0 ? (j) - 1 : 0])
#define SLOT_SHIFTED_DOWN(v, j, i) (!((j) >= (i) && (j) < (v)->as_list.size) || (v)->as_list.elements[j] == g_el_before[(j) + 1])
#define F_SAME(j) SLOT_SAME(value, j)
#define F_BELOW(j) SLOT_SAME_BELOW(value, j, index)
#define F_UP(j) SLOT_SHIFTED_UP(value, j, index)
#define F_DOWN(j) SLOT_SHIFTED_DOWN(value, j, index)
#define F_RWOK(j) (!((j) < value->as_list.size) || __CPROVER_rw_ok(value->as_list.elements[j], sizeof(cif_value_tp)))
#define LIST_UNCHANGED(v) ((v)->as_list.size == OLD((v)->as_list.size) && (v)->as_list.capacity == OLD((v)->as_list.capacity) \
        && (v)->as_list.elements == OLD((v)->as_list.elements) && EACH_L(F_SAME))

/* slot predicates of the shift-loop invariants (contracts/value.loops) */
#define L_INS_LOW(j)  (!((j) <= index2 && (j) < value->as_list.size) || value->as_list.elements[j] == g_el_before[j])
#define L_INS_HIGH(j) (!((j) > index2 && (j) <= value->as_list.size) || value->as_list.elements[j] == g_el_before[(j) > 0 ? (j) - 1 : 0])
#define L_REM_LOW(j)  (!((j) < index) || value->as_list.elements[j] == g_el_before[((j) < __CPROVER_loop_entry(index)) ? (j) : (j) + 1])
#define L_REM_HIGH(j) (!((j) >= index && (j) < value->as_list.size) || value->as_list.elements[j] == g_el_before[j])

int cif_value_get_element_at(cif_value_tp *value, size_t index, cif_value_tp **element)
__CPROVER_requires(__CPROVER_r_ok(value, sizeof(*value)) && __CPROVER_w_ok(element, sizeof(*element)))
__CPROVER_requires(value->kind == CIF_LIST_KIND ==> LIST_WF(value))
__CPROVER_assigns(*element)
__CPROVER_ensures(RET == (value->kind != CIF_LIST_KIND ? CIF_ARGUMENT_ERROR : (index >= value->as_list.size ? CIF_INVALID_INDEX : CIF_OK)))
__CPROVER_ensures(RET == CIF_OK ==> *element == value->as_list.elements[index])     /* by reference */
__CPROVER_ensures(RET != CIF_OK ==> *element == OLD(*element))
;

int cif_value_set_element_at(cif_value_tp *value, size_t index, cif_value_tp *element)
__CPROVER_requires(__CPROVER_rw_ok(value, sizeof(*value)) && (value->kind == CIF_LIST_KIND ==> LIST_WF(value)))
__CPROVER_requires(value->kind == CIF_LIST_KIND ==> EACH_L(F_RWOK))
__CPROVER_assigns(g_last_clone, g_clone_calls, g_clone_src, g_last_cleaned, g_clean_calls;
        (value->kind == CIF_LIST_KIND && index < value->as_list.size): value->as_list.elements[index]->kind)
__CPROVER_ensures((value->kind != CIF_LIST_KIND) ==> RET == CIF_ARGUMENT_ERROR)
__CPROVER_ensures((value->kind == CIF_LIST_KIND && index >= value->as_list.size) ==> RET == CIF_INVALID_INDEX)
/* replaces in place: the list structure (array, size, every slot pointer) is untouched on every path ... */
__CPROVER_ensures(value->kind == CIF_LIST_KIND ==> LIST_UNCHANGED(value))
/* ... the target object is (cleaned and) overwritten by a clone of the element, or just cleaned for NULL */
__CPROVER_ensures((RET == CIF_OK && value->kind == CIF_LIST_KIND && index < value->as_list.size && element != NULL && element != g_el_before[index])
        ==> (g_clone_calls == OLD(g_clone_calls) + 1 && g_clone_src == element && g_last_clone == g_el_before[index]))
__CPROVER_ensures((value->kind == CIF_LIST_KIND && index < value->as_list.size && element == NULL)
        ==> (RET == CIF_OK && g_last_cleaned == g_el_before[index] && g_clone_calls == OLD(g_clone_calls)))
/* setting an element to itself is a no-op (documented aliasing case) */
__CPROVER_ensures((value->kind == CIF_LIST_KIND && index < value->as_list.size && element == g_el_before[index])
        ==> (RET == CIF_OK && g_clone_calls == OLD(g_clone_calls) && g_clean_calls == OLD(g_clean_calls)))
;

#ifdef VERIF_REALLOC_LIST
/* Assumed libc contract, specialised to the one realloc call of cif_value_insert_element_at (CBMC's built-in realloc model
 * copies with a symbolic length and does not terminate here): NULL with the old block intact, or a fresh block of `size`
 * bytes whose first slots hold the old content (g_el_before is the harness's snapshot of that content). */
#define F_REALLOC(j) (!((j) < g_realloc_oldslots) || ((cif_value_tp **)RET)[j] == g_el_before[j])
size_t g_realloc_oldslots;
void *realloc(void *ptr, size_t size)
__CPROVER_requires(size >= g_realloc_oldslots * sizeof(cif_value_tp *) && size <= MAXL * sizeof(cif_value_tp *))
/* the release of the old block is not modelled (a dfcc frees clause would let the callee free it on the failure path too): use of the old block after a
 * successful growth is therefore not detected by this job */
__CPROVER_assigns()
__CPROVER_ensures(RET == NULL || (__CPROVER_is_fresh(RET, size) && EACH_L(F_REALLOC)))
;
#endif

int cif_value_insert_element_at(cif_value_tp *value, size_t index, cif_value_tp *element)
__CPROVER_requires(__CPROVER_rw_ok(value, sizeof(*value)) && (value->kind == CIF_LIST_KIND ==> LIST_WF(value)))
__CPROVER_requires(value->kind == CIF_LIST_KIND ==> value->as_list.capacity + (value->as_list.capacity < 10 ? 4 : value->as_list.capacity / 2) <= MAXL)
__CPROVER_assigns(g_last_clone, g_clone_calls, g_clone_src, g_last_cleaned, g_clean_calls, g_last_freed, g_free_calls;
        value->kind == CIF_LIST_KIND: value->as_list.elements, value->as_list.size, value->as_list.capacity;
        value->kind == CIF_LIST_KIND && value->as_list.elements != NULL: __CPROVER_object_whole(value->as_list.elements))
__CPROVER_frees(value->as_list.elements)
__CPROVER_ensures((value->kind != CIF_LIST_KIND) ==> RET == CIF_ARGUMENT_ERROR)
__CPROVER_ensures((value->kind == CIF_LIST_KIND && index > OLD(value->as_list.size)) ==> (RET == CIF_INVALID_INDEX && LIST_UNCHANGED(value)))
__CPROVER_ensures(RET == CIF_OK || RET == CIF_ARGUMENT_ERROR || RET == CIF_INVALID_INDEX || RET == CIF_MEMORY_ERROR || RET == CIF_ERROR)
/* success: a sequence insert - later elements shift by one, earlier ones stay, the new slot holds a fresh copy */
__CPROVER_ensures(RET == CIF_OK ==> (value->as_list.size == OLD(value->as_list.size) + 1 && value->as_list.size <= value->as_list.capacity
        && value->as_list.capacity <= MAXL && __CPROVER_rw_ok(value->as_list.elements, value->as_list.capacity * sizeof(cif_value_tp *))))
__CPROVER_ensures(RET == CIF_OK ==> EACH_L(F_BELOW))
__CPROVER_ensures(RET == CIF_OK ==> (value->as_list.elements[index] == g_last_clone && g_last_clone != NULL))
__CPROVER_ensures(RET == CIF_OK ==> EACH_L(F_UP))
/* failure (including a failed growth reallocation): the list is unchanged and the copy has been released */
__CPROVER_ensures((RET != CIF_OK && value->kind == CIF_LIST_KIND) ==> (value->as_list.size == OLD(value->as_list.size)
        && value->as_list.capacity == OLD(value->as_list.capacity) && value->as_list.elements == OLD(value->as_list.elements)))
__CPROVER_ensures((RET != CIF_OK && value->kind == CIF_LIST_KIND) ==> EACH_L(F_SAME))
__CPROVER_ensures((RET == CIF_MEMORY_ERROR && value->kind == CIF_LIST_KIND && index <= value->as_list.size && g_last_clone != OLD(g_last_clone)) ==> g_last_freed == g_last_clone)
;

int cif_value_remove_element_at(cif_value_tp *value, size_t index, cif_value_tp **element)
__CPROVER_requires(__CPROVER_rw_ok(value, sizeof(*value)) && (value->kind == CIF_LIST_KIND ==> LIST_WF(value)))
__CPROVER_requires(element == NULL || __CPROVER_w_ok(element, sizeof(*element)))
__CPROVER_assigns(g_last_freed, g_free_calls; element != NULL: *element;
        (value->kind == CIF_LIST_KIND && index < value->as_list.size): value->as_list.size, __CPROVER_object_whole(value->as_list.elements))
__CPROVER_ensures(RET == (value->kind != CIF_LIST_KIND ? CIF_ARGUMENT_ERROR : (index >= OLD(value->as_list.size) ? CIF_INVALID_INDEX : CIF_OK)))
__CPROVER_ensures(RET == CIF_OK ==> (value->as_list.size == OLD(value->as_list.size) - 1 && value->as_list.capacity == OLD(value->as_list.capacity)
        && value->as_list.elements == OLD(value->as_list.elements)))
__CPROVER_ensures(RET == CIF_OK ==> EACH_L(F_BELOW))
__CPROVER_ensures(RET == CIF_OK ==> EACH_L(F_DOWN))
/* ownership of the removed element passes to the caller, or it is released exactly once */
__CPROVER_ensures((RET == CIF_OK && element != NULL) ==> (*element == g_el_before[index] && g_free_calls == OLD(g_free_calls)))
__CPROVER_ensures((RET == CIF_OK && element == NULL) ==> (g_last_freed == g_el_before[index] && g_free_calls == OLD(g_free_calls) + 1))
__CPROVER_ensures((RET != CIF_OK && value->kind == CIF_LIST_KIND) ==> LIST_UNCHANGED(value))
;


/* ---- rounding helpers of the decimal <-> double conversions (C10) --------------------------------------------------- */
#ifndef MAXW
#define MAXW 6            /* modelled number of base-10^9 words of the bignum tail */
#endif
uint32_t *g_words;        /* ghost: the bignum (set by the harness) */
#define WIDX(p) (OFF(p) / sizeof(uint32_t))
#define WORDS_OK(p, q) (__CPROVER_same_object(p, g_words) && __CPROVER_same_object(q, g_words) && OFF(p) % 4 == 0 && OFF(q) % 4 == 0 \
        && WIDX(p) <= WIDX(q) && WIDX(q) < MAXW && __CPROVER_r_ok(g_words, MAXW * sizeof(uint32_t)))
/* all words strictly after position a up to and including position b are zero */
#define TAIL_ZERO_V(v, a, b) __CPROVER_forall { size_t v; (v < MAXW) ==> ((v > (a) && v <= (b)) ==> g_words[v] == 0) }
#define TAIL_ZERO(a, b) TAIL_ZERO_V(_w, a, b)
#define SPEC_HALF 500000000u   /* one half of the bignum base 10^9 */

static int is_zero(uint32_t check_value, uint32_t *work_dig, uint32_t *lsd)
__CPROVER_requires(WORDS_OK(work_dig, lsd))
__CPROVER_assigns()
__CPROVER_ensures((RET != 0) == (check_value == 0 && TAIL_ZERO(WIDX(work_dig), WIDX(lsd))))
__CPROVER_ensures(RET == 0 || RET == 1)
;

/* sign of (tail - one half of the preceding digit): the tail is check_value followed by the words after work_dig up to lsd */
static int compare_half(uint32_t check_value, uint32_t *work_dig, uint32_t *lsd)
__CPROVER_requires(WORDS_OK(work_dig, lsd))
__CPROVER_assigns()
__CPROVER_ensures(check_value < SPEC_HALF ==> RET < 0)
__CPROVER_ensures((check_value == SPEC_HALF && TAIL_ZERO(WIDX(work_dig), WIDX(lsd))) ==> RET == 0)
__CPROVER_ensures((check_value > SPEC_HALF || (check_value == SPEC_HALF && !TAIL_ZERO_V(_w2, WIDX(work_dig), WIDX(lsd)))) ==> RET > 0)
;
#endif
