/*
 * C15: contract of the production parse_container() (parser.c) - skip_depth accounting, silence of the handler callbacks and
 * absence of storage while a handler-directed skip is in effect - with the token source, the sub-productions and the storage
 * functions replaced by contracts.
 */
#ifndef VERIF_CONTRACTS_PARSER_PROD_H
#define VERIF_CONTRACTS_PARSER_PROD_H
#include "config.h"
#include <unicode/ustring.h>
#include "cif.h"
#include "internal/utils.h"
#include "common.h"
#define OLD(x) __CPROVER_old(x)
#define RET __CPROVER_return_value
#define TOKN 4
struct scanner_s *g_scanner;                 /* ghost: the scanner of the parse under verification */
UChar g_tokbuf[TOKN + 2];                    /* ghost: where the token source puts the current token */
unsigned g_store_calls;                      /* storage operations issued */
unsigned g_item_cb_calls, g_value_frees; int g_item_cb_answer;   /* handle_item monitor (set by the harness stub) */

#define SKIPPING (g_scanner->skip_depth > 0)
#define STORE_REQ(c) ((c) != NULL && !SKIPPING)
#define SC_FIELDS(s) (s)->ttype, (s)->text_start, (s)->tvalue_start, (s)->tvalue_length, (s)->next_char, (s)->line, (s)->column

/* token source: any token type; the token text lies in g_tokbuf; skip_depth is not its business */
static int next_token(struct scanner_s *scanner)
__CPROVER_requires(scanner == g_scanner)
__CPROVER_assigns(SC_FIELDS(scanner), __CPROVER_object_whole(g_tokbuf))
/* pointer_in_range_dfcc (lower == upper bound) makes the havocked pointers precise again for symex: a store through a pointer of
 * unknown value set is encoded as an update of every object (DESIGN 2/p7) */
__CPROVER_ensures(__CPROVER_pointer_in_range_dfcc(&g_tokbuf[0], scanner->tvalue_start, &g_tokbuf[0]) && __CPROVER_pointer_in_range_dfcc(&g_tokbuf[0], scanner->text_start, &g_tokbuf[0])
        && __CPROVER_pointer_in_range_dfcc(&g_tokbuf[0], scanner->next_char, &g_tokbuf[TOKN + 1]))
__CPROVER_ensures(RET == CIF_OK ==> ((int)scanner->ttype >= (int)BLOCK_HEAD && (int)scanner->ttype <= (int)END
        && scanner->tvalue_length <= TOKN
        && (scanner->next_char == g_tokbuf + scanner->tvalue_length || scanner->next_char == g_tokbuf + scanner->tvalue_length + 1)))
__CPROVER_ensures((RET == CIF_OK && (scanner->ttype == KEY || scanner->ttype == TKEY)) ==> scanner->next_char == g_tokbuf + scanner->tvalue_length + 1)
__CPROVER_ensures(scanner->line >= 1)
/* modelled input bound: save frames nest fewer than 10^6 deep (skip_depth is incremented once per bypassed level) */
__CPROVER_ensures((RET == CIF_OK && scanner->ttype == FRAME_HEAD) ==> scanner->skip_depth < 999990)
;

/* values (lists and tables recurse inside): a token-stream consumer that neither looks at skip_depth nor stores anything */
static int parse_value(struct scanner_s *scanner, cif_value_tp **valuep)
__CPROVER_requires(scanner == g_scanner && __CPROVER_rw_ok(valuep, sizeof(*valuep)))
__CPROVER_assigns(SC_FIELDS(scanner), __CPROVER_object_whole(g_tokbuf), *valuep)
__CPROVER_ensures(RET == CIF_OK ==> *valuep != NULL)
__CPROVER_ensures(__CPROVER_pointer_in_range_dfcc(&g_tokbuf[0], scanner->tvalue_start, &g_tokbuf[TOKN + 1]) && __CPROVER_pointer_in_range_dfcc(&g_tokbuf[0], scanner->text_start, &g_tokbuf[TOKN + 1])
        && __CPROVER_pointer_in_range_dfcc(&g_tokbuf[0], scanner->next_char, &g_tokbuf[TOKN + 1]))
__CPROVER_ensures(scanner->line >= 1)
;
int cif_container_set_value(cif_container_tp *container, const UChar *item_name, cif_value_tp *val)
__CPROVER_requires(STORE_REQ(container) && item_name != NULL && g_item_cb_answer == CIF_TRAVERSE_CONTINUE)
__CPROVER_assigns(g_store_calls)
__CPROVER_ensures(g_store_calls == OLD(g_store_calls) + 1)
;
void cif_value_free(cif_value_tp *value)
__CPROVER_requires(1)
__CPROVER_assigns(g_value_frees)
__CPROVER_ensures(g_value_frees == OLD(g_value_frees) + 1)
;
int cif_value_create(cif_kind_tp kind, cif_value_tp **value)
__CPROVER_requires(__CPROVER_rw_ok(value, sizeof(*value)))
__CPROVER_assigns(*value)
__CPROVER_ensures((RET == CIF_OK ==> *value != NULL) && (RET != CIF_OK ==> *value == OLD(*value)))
;

/* an item: balanced with respect to skip_depth when entered while skipping; entered at depth 0 it leaves 0, or 1 when its handler asked to
 * skip the remaining siblings; the handler is consulted and the value stored only for a named item outside a skip */
static int parse_item(struct scanner_s *scanner, cif_container_tp *container, UChar *name)
__CPROVER_requires(scanner == g_scanner && __CPROVER_rw_ok(scanner, sizeof(*scanner)) && (name == NULL || !SKIPPING) && scanner->skip_depth >= 0 && scanner->skip_depth < 999999)
__CPROVER_requires(scanner->handler != NULL && __CPROVER_r_ok(scanner->handler, sizeof(cif_handler_tp)) && scanner->error_callback != NULL && scanner->line >= 1)
__CPROVER_assigns(SC_FIELDS(scanner), scanner->skip_depth, __CPROVER_object_whole(g_tokbuf), g_store_calls, g_item_cb_calls, g_item_cb_answer, g_value_frees)
__CPROVER_ensures(OLD(scanner->skip_depth) > 0 ==> (scanner->skip_depth == OLD(scanner->skip_depth) && g_store_calls == OLD(g_store_calls)))
__CPROVER_ensures(OLD(scanner->skip_depth) == 0 ==> (scanner->skip_depth == 0 || (scanner->skip_depth == 1 && name != NULL && container != NULL)))
__CPROVER_ensures((name == NULL || container == NULL) ==> g_store_calls == OLD(g_store_calls))
__CPROVER_ensures(__CPROVER_pointer_in_range_dfcc(&g_tokbuf[0], scanner->tvalue_start, &g_tokbuf[TOKN + 1]) && __CPROVER_pointer_in_range_dfcc(&g_tokbuf[0], scanner->text_start, &g_tokbuf[TOKN + 1])
        && __CPROVER_pointer_in_range_dfcc(&g_tokbuf[0], scanner->next_char, &g_tokbuf[TOKN + 1]))
__CPROVER_ensures(scanner->line >= 1)
;
static int parse_loop(struct scanner_s *scanner, cif_container_tp *container)
__CPROVER_requires(scanner == g_scanner)
__CPROVER_assigns(SC_FIELDS(scanner), scanner->skip_depth, __CPROVER_object_whole(g_tokbuf), g_store_calls)
__CPROVER_ensures(OLD(scanner->skip_depth) > 0 ==> scanner->skip_depth == OLD(scanner->skip_depth))
__CPROVER_ensures(OLD(scanner->skip_depth) == 0 ==> (scanner->skip_depth == 0 || scanner->skip_depth == 1))
__CPROVER_ensures((OLD(scanner->skip_depth) > 0 || container == NULL) ==> g_store_calls == OLD(g_store_calls))
__CPROVER_ensures(__CPROVER_pointer_in_range_dfcc(&g_tokbuf[0], scanner->tvalue_start, &g_tokbuf[TOKN + 1]) && __CPROVER_pointer_in_range_dfcc(&g_tokbuf[0], scanner->text_start, &g_tokbuf[TOKN + 1])
        && __CPROVER_pointer_in_range_dfcc(&g_tokbuf[0], scanner->next_char, &g_tokbuf[TOKN + 1]))
__CPROVER_ensures(scanner->line >= 1)
;

/* storage: never while skipping, never without a target container (C15: nothing of a bypassed entity is stored) */
int cif_container_create_frame(cif_container_tp *container, const UChar *code, cif_container_tp **frame)
__CPROVER_requires(STORE_REQ(container) && __CPROVER_rw_ok(frame, sizeof(*frame)))
__CPROVER_assigns(*frame, g_store_calls)
__CPROVER_ensures(g_store_calls == OLD(g_store_calls) + 1 && (RET == CIF_OK ==> *frame != NULL) && (RET != CIF_OK ==> *frame == OLD(*frame)))
;
int cif_container_create_frame_internal(cif_container_tp *container, const UChar *code, int lenient, cif_container_tp **frame)
__CPROVER_requires(STORE_REQ(container) && __CPROVER_rw_ok(frame, sizeof(*frame)))
__CPROVER_assigns(*frame, g_store_calls)
__CPROVER_ensures(g_store_calls == OLD(g_store_calls) + 1 && (RET == CIF_OK ==> *frame != NULL) && (RET != CIF_OK ==> *frame == OLD(*frame)))
;
int cif_container_get_frame(cif_container_tp *container, const UChar *code, cif_container_tp **frame)
__CPROVER_requires(STORE_REQ(container) && __CPROVER_rw_ok(frame, sizeof(*frame)))
__CPROVER_assigns(*frame)
__CPROVER_ensures((RET == CIF_OK ==> *frame != NULL) && (RET != CIF_OK ==> *frame == OLD(*frame)))
;
int cif_container_get_item_loop(cif_container_tp *container, const UChar *item_name, cif_loop_tp **loop)
__CPROVER_requires(STORE_REQ(container) && loop == NULL)
__CPROVER_assigns()
__CPROVER_ensures(1)
;
int cif_container_prune(cif_container_tp *container)
__CPROVER_requires(STORE_REQ(container))
__CPROVER_assigns(g_store_calls)
__CPROVER_ensures(g_store_calls == OLD(g_store_calls) + 1)
;
void cif_container_free(cif_container_tp *container)
__CPROVER_requires(1)
__CPROVER_assigns()
__CPROVER_ensures(1)
;
UChar *u_strncpy(UChar *dst, const UChar *src, int32_t n)
__CPROVER_requires(n >= 0 && (n == 0 || (__CPROVER_w_ok(dst, (size_t)n * sizeof(UChar)) && __CPROVER_r_ok(src, (size_t)n * sizeof(UChar)))))
__CPROVER_assigns(__CPROVER_object_upto(dst, (size_t)n * sizeof(UChar)))
__CPROVER_ensures(RET == dst)
;

static int parse_container(struct scanner_s *scanner, cif_container_tp *container, int is_block)
__CPROVER_requires(scanner == g_scanner && __CPROVER_rw_ok(scanner, sizeof(*scanner)) && scanner->skip_depth >= 0 && scanner->skip_depth < 999995 && scanner->line >= 1)
__CPROVER_requires(scanner->handler != NULL && __CPROVER_r_ok(scanner->handler, sizeof(cif_handler_tp)) && scanner->error_callback != NULL)
__CPROVER_assigns(SC_FIELDS(scanner), scanner->skip_depth, __CPROVER_object_whole(g_tokbuf), g_store_calls, g_item_cb_calls, g_item_cb_answer, g_value_frees)
/* skip_depth accounting: a production entered while skipping leaves the depth as it found it, on every path; entered at depth 0 it
 * leaves 0, or 1 as the documented hand-off "skip my remaining siblings" to its caller */
__CPROVER_ensures(OLD(scanner->skip_depth) > 0 ==> scanner->skip_depth == OLD(scanner->skip_depth))
__CPROVER_ensures(OLD(scanner->skip_depth) == 0 ==> (scanner->skip_depth == 0 || scanner->skip_depth == 1))
/* nothing is stored for a bypassed container */
__CPROVER_ensures(OLD(scanner->skip_depth) > 0 ==> g_store_calls == OLD(g_store_calls))
/* ... nor in syntax-only mode (no target container) */
__CPROVER_ensures(container == NULL ==> g_store_calls == OLD(g_store_calls))
__CPROVER_ensures(__CPROVER_pointer_in_range_dfcc(&g_tokbuf[0], scanner->tvalue_start, &g_tokbuf[TOKN + 1]) && __CPROVER_pointer_in_range_dfcc(&g_tokbuf[0], scanner->text_start, &g_tokbuf[TOKN + 1])
        && __CPROVER_pointer_in_range_dfcc(&g_tokbuf[0], scanner->next_char, &g_tokbuf[TOKN + 1]))
__CPROVER_ensures(scanner->line >= 1)
;

/* ---- loop bodies --------------------------------------------------------------------------------------------------------------- */
unsigned g_packet_adds;
int cif_packet_create(cif_packet_tp **packet, UChar **names)
__CPROVER_requires(__CPROVER_rw_ok(packet, sizeof(*packet)))
__CPROVER_assigns(*packet)
__CPROVER_ensures(RET == CIF_OK ==> *packet != NULL)
;
int cif_packet_get_item(cif_packet_tp *packet, const UChar *name, cif_value_tp **value)
__CPROVER_requires(packet != NULL && __CPROVER_rw_ok(value, sizeof(*value)))
__CPROVER_assigns(*value)
__CPROVER_ensures(RET == CIF_OK ==> *value != NULL)
;
void cif_packet_free(cif_packet_tp *packet)
__CPROVER_requires(1)
__CPROVER_assigns()
__CPROVER_ensures(1)
;
int cif_value_init(cif_value_tp *value, cif_kind_tp kind)
__CPROVER_requires(value != NULL)
__CPROVER_assigns()
__CPROVER_ensures(1)
;
/* storing a packet: never while skipping, and only after packet_end answered CONTINUE */
int cif_loop_add_packet(cif_loop_tp *loop, cif_packet_tp *packet)
__CPROVER_requires(loop != NULL && packet != NULL && !SKIPPING)
__CPROVER_assigns(g_packet_adds)
__CPROVER_ensures(g_packet_adds == OLD(g_packet_adds) + 1)
;

#define MAXCOL 2
string_element_tp *g_names;     /* ghost: the header name list of the loop, laid out as an array linked in order (set by the harness) */
static int parse_loop_packets(struct scanner_s *scanner, cif_loop_tp *loop, string_element_tp *first_name, UChar *names[], int column_count)
__CPROVER_requires(scanner == g_scanner && __CPROVER_rw_ok(scanner, sizeof(*scanner)) && scanner->skip_depth >= 0 && scanner->skip_depth < 999990 && scanner->line >= 1)
__CPROVER_requires(scanner->handler != NULL && __CPROVER_r_ok(scanner->handler, sizeof(cif_handler_tp)) && scanner->error_callback != NULL)
__CPROVER_requires(column_count >= 1 && column_count <= MAXCOL && first_name == g_names && __CPROVER_r_ok(g_names, MAXCOL * sizeof(string_element_tp))
        && __CPROVER_r_ok(names, (MAXCOL + 1) * sizeof(UChar *)))
__CPROVER_requires(g_names[0].next == (column_count > 1 ? &g_names[1] : (string_element_tp *)0) && (column_count < 2 || g_names[1].next == (string_element_tp *)0))
__CPROVER_assigns(SC_FIELDS(scanner), scanner->skip_depth, __CPROVER_object_whole(g_tokbuf), g_packet_adds, g_item_cb_calls, g_item_cb_answer, g_value_frees)
/* skip-depth accounting of a loop body that ran to its end */
__CPROVER_ensures((RET == CIF_OK && OLD(scanner->skip_depth) > 0) ==> (scanner->skip_depth == OLD(scanner->skip_depth) && g_packet_adds == OLD(g_packet_adds)))
__CPROVER_ensures((RET == CIF_OK && OLD(scanner->skip_depth) == 0) ==> (scanner->skip_depth == 0 || scanner->skip_depth == 1))
__CPROVER_ensures(loop == NULL ==> g_packet_adds == OLD(g_packet_adds))
;
#endif
