/*
 * C15: contract of the production parse_container() (parser.c) - skip_depth accounting, silence of the handler callbacks and
 * absence of storage while a handler-directed skip is in effect - with the token source, the sub-productions and the storage
 * functions replaced by contracts.
 */
#ifndef VERIF_CONTRACTS_PARSER_PROD_H
#define VERIF_CONTRACTS_PARSER_PROD_H
#include "config.h"
#include <unicode/ustring.h>
#include "cif.h"
#include "internal/utils.h"
#include "common.h"
#define OLD(x) __CPROVER_old(x)
#define RET __CPROVER_return_value
#define TOKN 4
struct scanner_s *g_scanner;                 /* ghost: the scanner of the parse under verification */
UChar g_tokbuf[TOKN + 2];                    /* ghost: where the token source puts the current token */
unsigned g_store_calls;                      /* storage operations issued */

#define SKIPPING (g_scanner->skip_depth > 0)
#define SC_FIELDS(s) (s)->ttype, (s)->text_start, (s)->tvalue_start, (s)->tvalue_length, (s)->next_char, (s)->line, (s)->column

/* token source: any token type; the token text lies in g_tokbuf; skip_depth is not its business */
static int next_token(struct scanner_s *scanner)
__CPROVER_requires(scanner == g_scanner)
__CPROVER_assigns(SC_FIELDS(scanner), __CPROVER_object_whole(g_tokbuf))
/* pointer_in_range_dfcc (lower == upper bound) makes the havocked pointers precise again for symex: a store through a pointer of
 * unknown value set is encoded as an update of every object (DESIGN 2/p7) */
__CPROVER_ensures(__CPROVER_pointer_in_range_dfcc(&g_tokbuf[0], scanner->tvalue_start, &g_tokbuf[0]) && __CPROVER_pointer_in_range_dfcc(&g_tokbuf[0], scanner->text_start, &g_tokbuf[0])
        && __CPROVER_pointer_in_range_dfcc(&g_tokbuf[0], scanner->next_char, &g_tokbuf[TOKN + 1]))
__CPROVER_ensures(RET == CIF_OK ==> ((int)scanner->ttype >= (int)BLOCK_HEAD && (int)scanner->ttype <= (int)END
        && scanner->tvalue_length <= TOKN
        && (scanner->next_char == g_tokbuf + scanner->tvalue_length || scanner->next_char == g_tokbuf + scanner->tvalue_length + 1)))
__CPROVER_ensures((RET == CIF_OK && (scanner->ttype == KEY || scanner->ttype == TKEY)) ==> scanner->next_char == g_tokbuf + scanner->tvalue_length + 1)
__CPROVER_ensures(scanner->line >= 1)
/* modelled input bound: save frames nest fewer than 10^6 deep (skip_depth is incremented once per bypassed level) */
__CPROVER_ensures((RET == CIF_OK && scanner->ttype == FRAME_HEAD) ==> scanner->skip_depth < 999990)
;

/* sub-productions: balanced with respect to skip_depth; an item is stored (name given) only outside a skip */
static int parse_item(struct scanner_s *scanner, cif_container_tp *container, UChar *name)
__CPROVER_requires(scanner == g_scanner && (name == NULL || !SKIPPING))
__CPROVER_assigns(SC_FIELDS(scanner), __CPROVER_object_whole(g_tokbuf), g_store_calls)
__CPROVER_ensures((name == NULL || container == NULL) ==> g_store_calls == OLD(g_store_calls))
__CPROVER_ensures(__CPROVER_pointer_in_range_dfcc(&g_tokbuf[0], scanner->tvalue_start, &g_tokbuf[TOKN + 1]) && __CPROVER_pointer_in_range_dfcc(&g_tokbuf[0], scanner->text_start, &g_tokbuf[TOKN + 1])
        && __CPROVER_pointer_in_range_dfcc(&g_tokbuf[0], scanner->next_char, &g_tokbuf[TOKN + 1]))
__CPROVER_ensures(scanner->line >= 1)
;
static int parse_loop(struct scanner_s *scanner, cif_container_tp *container)
__CPROVER_requires(scanner == g_scanner)
__CPROVER_assigns(SC_FIELDS(scanner), __CPROVER_object_whole(g_tokbuf), g_store_calls)
__CPROVER_ensures((OLD(scanner->skip_depth) > 0 || container == NULL) ==> g_store_calls == OLD(g_store_calls))
__CPROVER_ensures(__CPROVER_pointer_in_range_dfcc(&g_tokbuf[0], scanner->tvalue_start, &g_tokbuf[TOKN + 1]) && __CPROVER_pointer_in_range_dfcc(&g_tokbuf[0], scanner->text_start, &g_tokbuf[TOKN + 1])
        && __CPROVER_pointer_in_range_dfcc(&g_tokbuf[0], scanner->next_char, &g_tokbuf[TOKN + 1]))
__CPROVER_ensures(scanner->line >= 1)
;

/* storage: never while skipping, never without a target container (C15: nothing of a bypassed entity is stored) */
#define STORE_REQ(c) ((c) != NULL && !SKIPPING)
int cif_container_create_frame(cif_container_tp *container, const UChar *code, cif_container_tp **frame)
__CPROVER_requires(STORE_REQ(container) && __CPROVER_rw_ok(frame, sizeof(*frame)))
__CPROVER_assigns(*frame, g_store_calls)
__CPROVER_ensures(g_store_calls == OLD(g_store_calls) + 1 && (RET == CIF_OK ==> *frame != NULL) && (RET != CIF_OK ==> *frame == OLD(*frame)))
;
int cif_container_create_frame_internal(cif_container_tp *container, const UChar *code, int lenient, cif_container_tp **frame)
__CPROVER_requires(STORE_REQ(container) && __CPROVER_rw_ok(frame, sizeof(*frame)))
__CPROVER_assigns(*frame, g_store_calls)
__CPROVER_ensures(g_store_calls == OLD(g_store_calls) + 1 && (RET == CIF_OK ==> *frame != NULL) && (RET != CIF_OK ==> *frame == OLD(*frame)))
;
int cif_container_get_frame(cif_container_tp *container, const UChar *code, cif_container_tp **frame)
__CPROVER_requires(STORE_REQ(container) && __CPROVER_rw_ok(frame, sizeof(*frame)))
__CPROVER_assigns(*frame)
__CPROVER_ensures((RET == CIF_OK ==> *frame != NULL) && (RET != CIF_OK ==> *frame == OLD(*frame)))
;
int cif_container_get_item_loop(cif_container_tp *container, const UChar *item_name, cif_loop_tp **loop)
__CPROVER_requires(STORE_REQ(container) && loop == NULL)
__CPROVER_assigns()
__CPROVER_ensures(1)
;
int cif_container_prune(cif_container_tp *container)
__CPROVER_requires(STORE_REQ(container))
__CPROVER_assigns(g_store_calls)
__CPROVER_ensures(g_store_calls == OLD(g_store_calls) + 1)
;
void cif_container_free(cif_container_tp *container)
__CPROVER_requires(1)
__CPROVER_assigns()
__CPROVER_ensures(1)
;
UChar *u_strncpy(UChar *dst, const UChar *src, int32_t n)
__CPROVER_requires(n >= 0 && (n == 0 || (__CPROVER_w_ok(dst, (size_t)n * sizeof(UChar)) && __CPROVER_r_ok(src, (size_t)n * sizeof(UChar)))))
__CPROVER_assigns(__CPROVER_object_upto(dst, (size_t)n * sizeof(UChar)))
__CPROVER_ensures(RET == dst)
;

static int parse_container(struct scanner_s *scanner, cif_container_tp *container, int is_block)
__CPROVER_requires(scanner == g_scanner && __CPROVER_rw_ok(scanner, sizeof(*scanner)) && scanner->skip_depth >= 0 && scanner->skip_depth < 999995 && scanner->line >= 1)
__CPROVER_requires(scanner->handler != NULL && __CPROVER_r_ok(scanner->handler, sizeof(cif_handler_tp)) && scanner->error_callback != NULL)
__CPROVER_assigns(SC_FIELDS(scanner), scanner->skip_depth, __CPROVER_object_whole(g_tokbuf), g_store_calls)
/* skip_depth accounting: a production entered while skipping leaves the depth as it found it, on every path; entered at depth 0 it
 * leaves 0, or 1 as the documented hand-off "skip my remaining siblings" to its caller */
__CPROVER_ensures(OLD(scanner->skip_depth) > 0 ==> scanner->skip_depth == OLD(scanner->skip_depth))
__CPROVER_ensures(OLD(scanner->skip_depth) == 0 ==> (scanner->skip_depth == 0 || scanner->skip_depth == 1))
/* nothing is stored for a bypassed container */
__CPROVER_ensures(OLD(scanner->skip_depth) > 0 ==> g_store_calls == OLD(g_store_calls))
/* ... nor in syntax-only mode (no target container) */
__CPROVER_ensures(container == NULL ==> g_store_calls == OLD(g_store_calls))
__CPROVER_ensures(__CPROVER_pointer_in_range_dfcc(&g_tokbuf[0], scanner->tvalue_start, &g_tokbuf[TOKN + 1]) && __CPROVER_pointer_in_range_dfcc(&g_tokbuf[0], scanner->text_start, &g_tokbuf[TOKN + 1])
        && __CPROVER_pointer_in_range_dfcc(&g_tokbuf[0], scanner->next_char, &g_tokbuf[TOKN + 1]))
__CPROVER_ensures(scanner->line >= 1)
;
#endif
