/*
 * C11 stage 1: contract of cif_parse() (ciffile.c) - selection of the CIF version handed to the parser proper and of
 * the character encoding - with assumed contracts for stdio / ICU / cif_parse_internal.
 */
#ifndef VERIF_CONTRACTS_CIFFILE_PARSE_H
#define VERIF_CONTRACTS_CIFFILE_PARSE_H
#include "config.h"
#include <stdio.h>
#include <unicode/ucnv.h>
#include "cif.h"
#include "internal/utils.h"
#include "common.h"
#define OLD(x) __CPROVER_old(x)
#define RET __CPROVER_return_value

static const char UTF8[6];   /* tentative definition: the object is defined (with its initialiser) in ciffile.c */
#define NBYTES 16
/* ghost inputs (set by the harness) */
unsigned char g_bytes[NBYTES];     /* the first bytes of the stream */
size_t g_count;                    /* how many bytes the first fread delivers (0..4096) */
int g_ferror;                      /* stream error indicator after that fread */
const char *g_conv_name;           /* canonical name ICU reports for the opened converter */
int g_open_fails;
/* ghost outputs (recorded by the stubs' contracts) */
const char *g_enc_name; int g_open_calls;
int g_pi_calls, g_pi_version, g_pi_not_utf8, g_pi_unfold, g_pi_unprefix, g_pi_maxdepth; cif_tp *g_pi_dest;
int g_close_calls, g_create_calls;

/* Unicode signatures (byte-order marks) the property speaks of */
static const char SIG_UTF8[] = "UTF-8", SIG_UTF16BE[] = "UTF-16BE", SIG_UTF16LE[] = "UTF-16LE", SIG_UTF32BE[] = "UTF-32BE", SIG_UTF32LE[] = "UTF-32LE";
#define B(i) (g_bytes[i])
#define HAS_BOM32LE (g_count >= 4 && B(0) == 0xFF && B(1) == 0xFE && B(2) == 0 && B(3) == 0)
#define HAS_BOM32BE (g_count >= 4 && B(0) == 0 && B(1) == 0 && B(2) == 0xFE && B(3) == 0xFF)
#define HAS_BOM8    (g_count >= 3 && B(0) == 0xEF && B(1) == 0xBB && B(2) == 0xBF)
#define HAS_BOM16BE (g_count >= 2 && B(0) == 0xFE && B(1) == 0xFF)
#define HAS_BOM16LE (g_count >= 2 && B(0) == 0xFF && B(1) == 0xFE && !HAS_BOM32LE)
#define SPEC_SIGNATURE (HAS_BOM8 ? SIG_UTF8 : HAS_BOM32LE ? SIG_UTF32LE : HAS_BOM32BE ? SIG_UTF32BE : HAS_BOM16BE ? SIG_UTF16BE : HAS_BOM16LE ? SIG_UTF16LE : (const char *)0)
/* version comments at byte level (ASCII-compatible spelling) */
#define HAS_MAGIC7  (g_count >= 10 && B(0) == '#' && B(1) == '\\' && B(2) == '#' && B(3) == 'C' && B(4) == 'I' && B(5) == 'F' && B(6) == '_')
#define HAS_MAGIC20 (HAS_MAGIC7 && B(7) == '2' && B(8) == '.' && B(9) == '0')

/*
 * The documented selection (cif.h, struct cif_parse_opts_s) as the version code handed to cif_parse_internal:
 *   2 / 1 = decided;  0 = decide by the version comment of the decoded text, default CIF 1.1;
 *  -2 = decide by the version comment of the decoded text, default CIF 2.0 (prefer_cif2 positive, no comment).
 */
#define SPEC_VERSION(p, forced) ( (p) > 19 ? 2 : (p) < 0 ? 1 : \
    ((forced) || SPEC_SIGNATURE != 0) ? ((p) > 0 ? -2 : 0) : \
    HAS_MAGIC20 ? 2 : ((p) > 0 && !HAS_MAGIC7) ? 2 : 1 )
/* the encoding: signature when present (unless overridden), UTF-8 for CIF 2.0, otherwise the named / system default */
#define SPEC_ENCODING(p, forced, dflt) ( (forced) ? (dflt) : SPEC_SIGNATURE != 0 ? SPEC_SIGNATURE : \
    ((p) > 19 || ((p) >= 0 && HAS_MAGIC20) || ((p) > 0 && !HAS_MAGIC7)) ? (const char *)UTF8 : (const char *)0 )

/* ---- assumed contracts -------------------------------------------------------------------------------------- */
size_t fread(void *ptr, size_t size, size_t nmemb, FILE *stream)
__CPROVER_requires(size == 1 && nmemb == 4096 && __CPROVER_w_ok(ptr, 4096))
__CPROVER_assigns(__CPROVER_object_upto(ptr, 4096))
__CPROVER_ensures(RET == g_count && g_count <= 4096)
__CPROVER_ensures(__CPROVER_forall { size_t j; (j < NBYTES) ==> ((j < g_count) ==> ((unsigned char *)ptr)[j] == g_bytes[j]) })
;
int ferror(FILE *stream)
__CPROVER_assigns()
__CPROVER_ensures(RET == g_ferror)
;
/* ICU: reports exactly the five UTF byte-order marks (ICU's further signatures, e.g. UTF-7/SCSU, are outside the property) */
const char *ucnv_detectUnicodeSignature(const char *source, int32_t sourceLength, int32_t *signatureLength, UErrorCode *pErrorCode)
__CPROVER_requires(__CPROVER_r_ok(source, sourceLength) && sourceLength == (int32_t)g_count && __CPROVER_rw_ok(pErrorCode, sizeof(*pErrorCode)))
__CPROVER_requires(__CPROVER_forall { size_t j; (j < NBYTES) ==> ((j < g_count) ==> ((unsigned char *)source)[j] == g_bytes[j]) })
__CPROVER_assigns(*signatureLength)
__CPROVER_ensures(RET == SPEC_SIGNATURE)
;
UConverter *ucnv_open(const char *converterName, UErrorCode *err)
__CPROVER_requires(__CPROVER_rw_ok(err, sizeof(*err)))
__CPROVER_assigns(*err, g_enc_name, g_open_calls)
__CPROVER_ensures(g_enc_name == converterName && g_open_calls == OLD(g_open_calls) + 1)
__CPROVER_ensures(g_open_fails ? (*err > U_ZERO_ERROR) : (*err == OLD(*err) && RET != NULL))
;
const char *ucnv_getName(const UConverter *cnv, UErrorCode *err)
__CPROVER_assigns()
__CPROVER_ensures(RET == g_conv_name)
;
void ucnv_setToUCallBack(UConverter *cnv, UConverterToUCallback newAction, const void *newContext, UConverterToUCallback *oldAction, const void **oldContext, UErrorCode *err)
__CPROVER_requires(1)
__CPROVER_assigns()
__CPROVER_ensures(1)
;
void ucnv_close(UConverter *converter)
__CPROVER_assigns(g_close_calls)
__CPROVER_ensures(g_close_calls == OLD(g_close_calls) + 1)
;
int cif_create(cif_tp **cif)
__CPROVER_requires(__CPROVER_rw_ok(cif, sizeof(*cif)))
__CPROVER_assigns(*cif, g_create_calls)
__CPROVER_ensures(g_create_calls == OLD(g_create_calls) + 1)
__CPROVER_ensures(RET == CIF_OK ==> *cif != NULL)
;
int cif_parse_internal(struct scanner_s *scanner, int not_utf8, const char *extra_ws, const char *extra_eol, cif_tp *dest)
__CPROVER_requires(__CPROVER_r_ok(scanner, sizeof(*scanner)))
__CPROVER_requires(scanner->at_eof == 0)
__CPROVER_assigns(g_pi_calls, g_pi_version, g_pi_not_utf8, g_pi_unfold, g_pi_unprefix, g_pi_maxdepth, g_pi_dest)
__CPROVER_ensures(g_pi_calls == OLD(g_pi_calls) + 1 && g_pi_version == scanner->cif_version && g_pi_not_utf8 == not_utf8 && g_pi_dest == dest)
__CPROVER_ensures(g_pi_unfold == scanner->line_unfolding && g_pi_unprefix == scanner->prefix_removing && g_pi_maxdepth == scanner->max_frame_depth)
;

/* ---- the function under contract ------------------------------------------------------------------------------ */
int cif_parse(FILE *stream, struct cif_parse_opts_s *options, cif_tp **cifp)
__CPROVER_requires(options != NULL && __CPROVER_r_ok(options, sizeof(*options)))
__CPROVER_requires(cifp == NULL || __CPROVER_rw_ok(cifp, sizeof(*cifp)))
__CPROVER_requires(g_conv_name != NULL && __CPROVER_r_ok(g_conv_name, 8) && g_pi_calls == 0 && g_open_calls == 0 && g_close_calls == 0)
__CPROVER_assigns(g_enc_name, g_open_calls, g_pi_calls, g_pi_version, g_pi_not_utf8, g_pi_unfold, g_pi_unprefix, g_pi_maxdepth, g_pi_dest, g_close_calls, g_create_calls;
                  cifp != NULL: *cifp)
/* the parser proper runs at most once, with exactly the documented version code and encoding */
__CPROVER_ensures(g_pi_calls <= 1 && g_open_calls <= 1 && g_close_calls == (g_open_calls == 1 && !g_open_fails ? 1 : 0))
__CPROVER_ensures(g_pi_calls == 1 ==> g_pi_version == SPEC_VERSION(options->prefer_cif2, options->force_default_encoding != 0))
__CPROVER_ensures(g_open_calls == 1 ==> g_enc_name == SPEC_ENCODING(options->prefer_cif2, options->force_default_encoding != 0, options->default_encoding_name))
/* "is the decoder UTF-8" is reported truthfully to the parser (it decides CIF_WRONG_ENCODING there) */
__CPROVER_ensures(g_pi_calls == 1 ==> ((g_pi_not_utf8 != 0) == !(g_conv_name[0] == 'U' && g_conv_name[1] == 'T' && g_conv_name[2] == 'F' && g_conv_name[3] == '-'
        && g_conv_name[4] == '8' && g_conv_name[5] == 0)))
/* an empty unforced stream is an empty CIF; otherwise the parser runs unless I/O or the converter fails */
__CPROVER_ensures((options->force_default_encoding == 0 && g_count == 0 && !g_ferror && (cifp == NULL || OLD(*cifp) != NULL)) ==> (RET == CIF_OK && g_pi_calls == 0))
__CPROVER_ensures(((options->force_default_encoding != 0 || (g_count > 0 && !(g_count < 4096 && g_ferror))) && !g_open_fails && (cifp == NULL || OLD(*cifp) != NULL)) ==> g_pi_calls == 1)
/* modifiers are passed on clamped to {..,0,1} as documented */
__CPROVER_ensures(g_pi_calls == 1 ==> (g_pi_unfold == (options->line_folding_modifier < 1 ? options->line_folding_modifier : 1)
        && g_pi_unprefix == (options->text_prefixing_modifier < 1 ? options->text_prefixing_modifier : 1)))
;
#endif
