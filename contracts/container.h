/*
 * C05: contracts for the mutating functions of /repo/src/container.c over the ghost transaction model of stubs/sqlite_model.h.
 * The property clause decided here: a call that returns an error has undone every write it stepped and nothing else (also inside an
 * enclosing transaction), a successful call leaves the transaction bracket as it found it.
 */
#ifndef VERIF_CONTRACTS_CONTAINER_H
#define VERIF_CONTRACTS_CONTAINER_H
#include "config.h"
#include <stdlib.h>
#include <string.h>
#include "cif.h"
#include "internal/ciftypes.h"
#include "internal/utils.h"
#include "internal/sql.h"
#include "common.h"
#include "sqlite_model.h"
#include "sql_preds.h"

#ifndef MAXNM
#define MAXNM 3    /* modelled maximum number of item names handed to one call */
#endif

/* ghost copies of the model state at entry (set by the harness, tied to the real entry state by the precondition): loop invariants cannot say OLD() */
int g0_open, g0_depth; unsigned g0_tx_writes, g0_steps, g0_lost, g0_durable, g0_mark0, g0_mark1;
size_t g_n;          /* ghost: number of names before the terminating NULL */
#define G0_IS_ENTRY (g0_open == g_tx_open && g0_depth == g_sp_depth && g0_tx_writes == g_tx_writes && g0_steps == g_write_steps && g0_lost == g_lost_writes \
    && g0_durable == g_durable_writes && g0_mark0 == g_sp_mark[0] && g0_mark1 == g_sp_mark[1])
/* inside the call's own bracket, before anything was undone: every write stepped so far is pending, nothing lost, nothing durable, the older savepoints untouched */
#define SQL_INSIDE_OWN_BRACKET (g_tx_open && !g_undo_failed && g_sp_depth == g0_depth + (g0_open ? 1 : 0) && g_lost_writes == g0_lost && g_durable_writes == g0_durable \
    && g_tx_writes - g0_tx_writes == g_write_steps - g0_steps && (g0_depth < 1 || g_sp_mark[0] == g0_mark0) && (g0_depth < 2 || g_sp_mark[1] == g0_mark1) \
    && (!g0_open || g_sp_mark[g0_depth] == g0_tx_writes) && (g0_open || !g_tx_by_sp))

#define CONTAINER_OK(c) (__CPROVER_r_ok(c, sizeof(*(c))) && (c)->cif != NULL && __CPROVER_rw_ok((c)->cif, sizeof(cif_tp)))
#define NAMES_OK(a) (__CPROVER_r_ok(a, (MAXNM + 1) * sizeof(UChar *)) && g_n <= MAXNM && (a)[g_n] == NULL \
    && (g_n < 1 || (a)[0] != NULL) && (g_n < 2 || (a)[1] != NULL) && (g_n < 3 || (a)[2] != NULL))

UChar *cif_u_strdup(const UChar *str)
__CPROVER_assigns()
__CPROVER_ensures(RET == NULL || (str != NULL && __CPROVER_is_fresh(RET, sizeof(UChar))))
;
void cif_loop_free(cif_loop_tp *loop)
__CPROVER_requires(loop != NULL)
__CPROVER_assigns()
;

static int cif_container_create_loop_internal(cif_container_tp *container, const UChar *category, UChar *names[], UChar *names_norm[], cif_loop_tp **loop)
__CPROVER_requires(CONTAINER_OK(container) && NAMES_OK(names) && __CPROVER_r_ok(names_norm, (MAXNM + 1) * sizeof(UChar *)) && (loop == NULL || __CPROVER_rw_ok(loop, sizeof(*loop))))
__CPROVER_requires(SQL_ENTRY && G0_IS_ENTRY)
__CPROVER_assigns(G_SQL, container->cif->create_loop_stmt, container->cif->get_loopnum_stmt, container->cif->add_loop_item_stmt; loop != NULL: *loop)
/* success: bracket closed again; inside a transaction the writes are pending in it, outside they are durable; nothing lost either way */
__CPROVER_ensures((RET == CIF_OK && OLD(g_tx_open)) ==> SQL_NESTED_SUCCESS)
__CPROVER_ensures((RET == CIF_OK && !OLD(g_tx_open)) ==> (!g_tx_open && g_sp_depth == 0 && g_lost_writes == OLD(g_lost_writes) && g_durable_writes - OLD(g_durable_writes) == g_write_steps - OLD(g_write_steps)))
__CPROVER_ensures((RET == CIF_OK && loop != NULL) ==> *loop != NULL)
/* C05: failure leaves the database, the enclosing transaction and the caller's handle variable as they were */
__CPROVER_ensures(RET != CIF_OK ==> SQL_UNCHANGED_BY_FAILED_CALL)
__CPROVER_ensures((RET != CIF_OK && loop != NULL) ==> *loop == OLD(*loop))
/* never ends somebody else's transaction */
__CPROVER_ensures(OLD(g_tx_open) ==> (g_commits == OLD(g_commits) && g_rollbacks == OLD(g_rollbacks)))
;

/* ---- cif_container_set_value: the bracket of a top-level mutator ----------------------------------------------------------------
 * Its helpers work inside the caller's transaction.  ASSUMED contract for them (not verified in this round, listed as such in the evidence): they never end
 * the caller's transaction, and every write they step is either still pending in it or was undone again. */
#define SQL_STAYS_IN_CALLERS_TX (g_tx_open && g_commits == OLD(g_commits) && g_rollbacks == OLD(g_rollbacks) && g_begins == OLD(g_begins) && g_durable_writes == OLD(g_durable_writes) \
    && (g_tx_writes - OLD(g_tx_writes)) + (g_lost_writes - OLD(g_lost_writes)) == g_write_steps - OLD(g_write_steps) && g_tx_by_sp == OLD(g_tx_by_sp))
int cif_normalize_item_name(const UChar *name, int32_t namelen, UChar **normalized_name, int invalidityCode)
__CPROVER_requires(name != NULL && __CPROVER_rw_ok(normalized_name, sizeof(*normalized_name)))
__CPROVER_assigns(*normalized_name)
__CPROVER_ensures(RET == CIF_OK ==> __CPROVER_is_fresh(*normalized_name, sizeof(UChar)))
__CPROVER_ensures(RET == CIF_OK || RET == invalidityCode || RET == CIF_MEMORY_ERROR || RET == CIF_ERROR)
;
static int cif_container_get_item_loop_internal(cif_container_tp *container, const UChar *name, cif_loop_tp *loop)
__CPROVER_requires(CONTAINER_OK(container) && name != NULL && __CPROVER_rw_ok(loop, sizeof(*loop)))
__CPROVER_assigns(*loop, g_finalized)
__CPROVER_ensures(RET == CIF_OK ==> (loop->category == NULL || __CPROVER_is_fresh(loop->category, sizeof(UChar))))
;
static int cif_container_add_scalar(cif_container_tp *container, const UChar *item_name, const UChar *name_orig, cif_value_tp *val)
__CPROVER_requires(CONTAINER_OK(container) && item_name != NULL && name_orig != NULL && val != NULL && g_tx_open)
__CPROVER_assigns(G_SQL)
__CPROVER_ensures(SQL_STAYS_IN_CALLERS_TX)
;
int cif_container_set_all_values(cif_container_tp *container, const UChar *item_name, cif_value_tp *val)
__CPROVER_requires(CONTAINER_OK(container) && item_name != NULL && val != NULL && g_tx_open)
__CPROVER_assigns(G_SQL)
__CPROVER_ensures(SQL_STAYS_IN_CALLERS_TX)
;
int cif_container_set_value(cif_container_tp *container, const UChar *name_orig, cif_value_tp *val)
__CPROVER_requires(CONTAINER_OK(container) && name_orig != NULL && (val == NULL || __CPROVER_r_ok(val, sizeof(*val))) && SQL_ENTRY)
__CPROVER_assigns(G_SQL)
/* inside somebody else's transaction the call is refused (it cannot BEGIN) and changes nothing */
__CPROVER_ensures(OLD(g_tx_open) ==> (RET != CIF_OK && g_write_steps == OLD(g_write_steps) && g_commits == OLD(g_commits) && g_rollbacks == OLD(g_rollbacks)))
/* success: committed, every write that was not undone by a helper is durable */
__CPROVER_ensures(RET == CIF_OK ==> (!g_tx_open && (g_durable_writes - OLD(g_durable_writes)) + (g_lost_writes - OLD(g_lost_writes)) == g_write_steps - OLD(g_write_steps)))
/* C05: failure leaves the database as it was */
__CPROVER_ensures(RET != CIF_OK ==> SQL_UNCHANGED_BY_FAILED_CALL)
;
#endif
