/* C03 / C12 harnesses: the scanner functions built around SCAN_UCHAR, with the error callback ending in a monitor stub. */
#include "parser_scan.h"
#include "parser.c"
int nondet_int(void); size_t nondet_size(void);
_Static_assert(CIF_EOF == SPEC_CIF_EOF, "parser.c changed its private end-of-input code");

/* scanner and buffer are static objects: pointer chains through them stay precise and cheap for CBMC (the buffer object is MAXBUF units, any prefix of it in use) */
static struct scanner_s the_scanner; static UChar the_buf[MAXBUF];
/* the error callback: checks the arguments of every invocation (C03) and that the report is justified by the text it points at (C12: no report without its defect) */
int stub_error_cb(int code, size_t line, size_t column, const UChar *text, size_t length, void *data) {
    __CPROVER_assert(!g_err_rejected, "C03 no further error callback after one that returned non-zero");
    __CPROVER_assert(line >= 1, "C03 error callback gets a line number >= 1");
    __CPROVER_assert(text == NULL || (__CPROVER_same_object(text, the_buf) && UIDX(text) + length <= the_scanner.buffer_limit), "C03 error callback text is readable for the stated length");
    UChar u0 = (text != NULL && length >= 1) ? text[0] : 0, u1 = (text != NULL && length >= 2) ? text[1] : 0;
    if (code == CIF_DISALLOWED_CHAR && length == 1)
        __CPROVER_assert(SPEC_UNIT_DISALLOWED(u0, &the_scanner), "C12 CIF_DISALLOWED_CHAR is reported only for a character the CIF version in force does not allow");
    if (code == CIF_DISALLOWED_CHAR && length == 2)
        __CPROVER_assert(text + 1 == g_refill_at || SPEC_PAIR_NONCHAR(u0, u1), "C12 a two-unit CIF_DISALLOWED_CHAR report points at a surrogate pair encoding a noncharacter");
    if (code == CIF_INVALID_CHAR)
        __CPROVER_assert(length == 1 && (text + 1 == g_refill_at || IS_LEAD(u0) || IS_TRAIL(u0)), "C12 CIF_INVALID_CHAR is reported only for an unpaired surrogate");
    g_err_calls++; g_err_code = code;
    if (code == CIF_DISALLOWED_CHAR && length == 1) g_last_disallowed = text;
    if (code == CIF_INVALID_CHAR) g_last_invalid = text;
    g_err_ret = nondet_int(); if (g_err_ret != 0) g_err_rejected = 1;
    return g_err_ret;
}

static struct scanner_s *make_scanner(void) {
    struct scanner_s *s = &the_scanner;
    size_t size = MAXBUF, limit = nondet_size(), ts = nondet_size(), tv = nondet_size(), nc = nondet_size();
    __CPROVER_assume(limit <= size && ts <= tv && tv <= nc && nc <= limit);
    s->buffer = the_buf;
    s->buffer_size = size; s->buffer_limit = limit; s->text_start = s->buffer + ts; s->tvalue_start = s->buffer + tv; s->next_char = s->buffer + nc;
    s->read_func = stub_read_func; s->error_callback = stub_error_cb; s->char_source = NULL; s->user_data = NULL;
    __CPROVER_assume(s->line >= 1);
    g_sc = s; g_err_calls = 0; g_err_rejected = 0; g_last_disallowed = NULL; g_last_invalid = NULL; g_refill_at = NULL; g_read_calls = 0;
    __CPROVER_assume(g_read_n <= MAXBUF && g_read_error > 0);
    return s;
}
void harness_scan_to_eol(void) {
    struct scanner_s *s = make_scanner();
    int r = scan_to_eol(s);
    POST(r == CIF_OK || r == g_err_ret || r == CIF_MEMORY_ERROR || r == g_read_error, "C03 the scanner returns CIF_OK, the callback's non-zero answer, or a defined error code");
    if (r == CIF_OK && g_err_calls > 0) REACH("recovered"); if (r == CIF_OK && g_err_calls == 0) REACH("clean"); if (g_err_rejected) REACH("rejected");
    if (g_err_calls && g_err_code == CIF_INVALID_CHAR) REACH("unpaired-surrogate"); if (g_err_calls && g_err_code == CIF_DISALLOWED_CHAR) REACH("disallowed");
    if (r == CIF_OK && g_read_calls > 0) REACH("refilled");
}
