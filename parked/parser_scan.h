/*
 * C03 / C12: contracts for the lexical scanner functions of /repo/src/parser.c (the functions built around SCAN_UCHAR).
 * get_more_chars is a callee by the contract that the C08 check enforces (contracts/parser_buf.h).
 */
#ifndef VERIF_CONTRACTS_PARSER_SCAN_H
#define VERIF_CONTRACTS_PARSER_SCAN_H
#define VERIF_GMC_AS_CALLEE 1
#include "parser_buf.h"
#include "internal/ciftypes.h"

/* ---- specification of the character rules (CIF 2.0 sections 2.3 / 3; CIF 1.1 section 4) as far as one 16-bit unit decides them ------------- */
#define IS_LEAD(u)  (((u) & 0xFC00u) == 0xD800u)
#define IS_TRAIL(u) (((u) & 0xFC00u) == 0xDC00u)
/* BMP noncharacters and the byte-order mark are not allowed anywhere in CIF text; below CHAR_TABLE_MAX the scanner's class table decides (it is
 * configurable: extra whitespace / end-of-line characters), CIF 1.1 allows nothing above 0x7E */
#define SPEC_BMP_NONCHAR(u) (((u) >= 0xFDD0u && (u) <= 0xFDEFu) || (u) == 0xFFFEu || (u) == 0xFFFFu || (u) == 0xFEFFu)
#define SPEC_UNIT_DISALLOWED(u, s) (!IS_TRAIL(u) && ((((u) < CHAR_TABLE_MAX) ? ((s)->char_class[(u) % CHAR_TABLE_MAX] == NO_CLASS) : SPEC_BMP_NONCHAR(u)) \
    || ((s)->cif_version < 2 && (u) > 0x7Eu)))
/* a surrogate pair encoding U+nFFFE / U+nFFFF */
#define SPEC_PAIR_NONCHAR(hi, lo) ((((lo) & 0xFFFEu) == 0xDFFEu) && (((hi) & 0xFC3Fu) == 0xD83Fu))

/* ---- ghost monitor of the error callback (the stub in the harness maintains it and asserts the per-call obligations) ---------------------- */
struct scanner_s *g_sc;          /* the scanner under test */
unsigned g_err_calls;            /* error callback invocations */
int g_err_rejected;              /* the callback has returned non-zero */
int g_err_ret;                   /* its most recent answer */
int g_err_code;                  /* code of the most recent report */
const UChar *g_last_disallowed;  /* text pointer of the most recent CIF_DISALLOWED_CHAR report of length 1 */
const UChar *g_last_invalid;     /* text pointer of the most recent CIF_INVALID_CHAR report */
#define G_ERR g_err_calls, g_err_rejected, g_err_ret, g_err_code, g_last_disallowed, g_last_invalid

#define SCANNER_OK(s) (__CPROVER_rw_ok(s, sizeof(*(s))) && SCANBUF_WF(s) && (s)->read_func == stub_read_func && (s)->error_callback == stub_error_cb && (s)->line >= 1 \
    && g_sc == (s) && !g_err_rejected)
int stub_error_cb(int code, size_t line, size_t column, const UChar *text, size_t length, void *data);

/* what every scanned-unit loop maintains about the units it has consumed since the loop was entered (entry = __CPROVER_loop_entry(scanner->next_char)):
 *  - a disallowed unit was reported (and accepted) when it was consumed: "no defect without its report";
 *  - the lead-surrogate flag describes the unit just consumed;
 *  - no unpaired surrogate is left behind: an unpaired lead / trail was reported and replaced.
 * Together with the stub's assertion that every report is justified by the text it points at ("no report without its defect") and the fact that every unit
 * is the unit just consumed at exactly one loop head, this gives the per-character clause of C12 for all inputs. */
#define SCANNED_SINCE(s, entry) ((size_t)((s)->next_char - (entry)))
#ifdef NO_UNIT_INV
#define UNIT_LOOP_INV(s, entry, lead) ((lead) ==> (s)->next_char > (s)->text_start)
#else
#define UNIT_LOOP_INV(s, entry, lead) ( \
       (SCANNED_SINCE(s, entry) >= 1 ==> ((SPEC_UNIT_DISALLOWED((s)->next_char[-1], s) ==> g_last_disallowed == (s)->next_char - 1) \
                                          && ((lead) != 0) == IS_LEAD((s)->next_char[-1]))) \
    && (SCANNED_SINCE(s, entry) >= 2 ==> ((IS_LEAD((s)->next_char[-2]) ==> IS_TRAIL((s)->next_char[-1])) && (IS_TRAIL((s)->next_char[-1]) ==> IS_LEAD((s)->next_char[-2])))) \
    && ((lead) ==> (s)->next_char > (s)->text_start) )
#endif

/* scan_to_eol: the rest of a comment line */
static int scan_to_eol(struct scanner_s *scanner)
__CPROVER_requires(SCANNER_OK(scanner) && g_read_n <= MAXBUF && g_read_error > 0)
__CPROVER_assigns(scanner->buffer_limit, scanner->next_char, scanner->text_start, scanner->tvalue_start, scanner->at_eof, scanner->column,
                  scanner->tvalue_length, __CPROVER_object_whole(scanner->buffer), g_read_calls, g_read_dest, g_read_count, g_refill_at, G_ERR)
/* C03 result protocol: CIF_OK, or the first non-zero answer of the error callback, or the code of a failed buffer refill */
__CPROVER_ensures(RET == CIF_OK || (g_err_rejected && RET == g_err_ret && RET != 0) || (!g_err_rejected && (RET == CIF_MEMORY_ERROR || RET == g_read_error)))
__CPROVER_ensures(RET == CIF_OK ==> !g_err_rejected)
/* the token value ends where scanning stopped: at an end-of-line character (not consumed) or at the end of the input */
__CPROVER_ensures(RET == CIF_OK ==> (SCANBUF_WF(scanner) && scanner->tvalue_length == (size_t)(scanner->next_char - scanner->tvalue_start)
    && (UIDX(scanner->next_char) == scanner->buffer_limit ? scanner->at_eof != 0 : CLASS_OF(*scanner->next_char, scanner) == EOL_CLASS)))
;
#endif
